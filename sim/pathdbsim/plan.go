package pathdbsim

import (
	"encoding/json"

	"verifsim/simcore"
)

// Mut is one mutation inside a transition. Kinds: 0 touch account, 1 set slot,
// 2 delete slot, 3 destruct account, 4 destruct and recreate (S = slot mask),
// 5 wipe storage.
type Mut struct {
	K int `json:"k"`
	A int `json:"a"`
	S int `json:"s,omitempty"`
}

// Read is one planned read. Root: selector (odd: among live roots, even: among
// all states ever produced). Kind: 0 account, 1 slot, 2 trie node (S selects a
// stored node, or an absent path when S is negative), 3 sweep (everything),
// 4 account iterator, 5 storage iterator, 6 binary account iterator, 7 binary
// storage iterator. Held: obtain the reader, pass a gate, then read.
type Read struct {
	Root int  `json:"root"`
	Kind int  `json:"kind"`
	A    int  `json:"a,omitempty"`
	S    int  `json:"s,omitempty"`
	Held bool `json:"held,omitempty"`
	Seek int  `json:"seek,omitempty"` // iterators: 0 zero hash, 2i+1 exact key i, 2i+2 just after key i, -1 max hash
}

// Op is one operation of the main actor. Selectors are interpreted against the
// model at execution time, so that a shrunk plan stays meaningful.
//
//	upd      new transition from parent P (0 = tip, n>0 = n-th live root) with mutations M
//	dup      Update to the content of existing state T on parent P (repeated root, or the empty transition when T==P)
//	commit   Commit(T-th live root)
//	read     one read R by the main actor
//	size     Database.Size
//	recover  Recover(T-th state ever produced), judged against the model
//	recall   ask Recoverable for every state, Recover to every reported one (deepest first) and judge each
type Op struct {
	K string `json:"k"`
	P int    `json:"p,omitempty"`
	T int    `json:"t,omitempty"`
	M []Mut  `json:"m,omitempty"`
	R *Read  `json:"r,omitempty"`
}

// Phase: the main actor's ops and the reader actors' scripts run concurrently
// under the scheduler; End says how the incarnation ends: "" (keeps running into
// the next phase), "journal" (Journal(tip)+Close+reopen), "close" (Close
// without journal + reopen: un-flushed state is legitimately lost).
type Phase struct {
	Ops     []Op     `json:"ops"`
	Readers [][]Read `json:"readers,omitempty"`
	End     string   `json:"end,omitempty"`
}

type Plan struct {
	Check  string   `json:"check"`
	K      Knobs    `json:"knobs"`
	Phases []Phase  `json:"phases"`
	Tape   []uint16 `json:"tape,omitempty"`
	// OrphanOK: operations may build on orphan-linked layers (fork children of a
	// flattened layer); otherwise they are only read.
	OrphanOK bool `json:"orphan_ok,omitempty"`
	// Legacy: C22's second world, the legacy core/state/snapshot tree (legacy.go).
	Legacy bool `json:"legacy,omitempty"`
	// TinyTrie: one-account states are allowed although trienode histories are indexed (C18).
	TinyTrie bool `json:"tiny_trie,omitempty"`
	// crash enumeration (C20)
	CutSeed  uint64 `json:"cut_seed,omitempty"`
	MaxCuts  int    `json:"max_cuts,omitempty"`
	Draws    int    `json:"draws,omitempty"`
	OnlyCut  uint64 `json:"only_cut,omitempty"` // replay hint: evaluate only the cut at this sequence number (+1)
	OnlyDraw int    `json:"only_draw,omitempty"`
}

func decodePlan(b []byte) (any, error) {
	p := &Plan{}
	return p, json.Unmarshal(b, p)
}

func clonePlan(p *Plan) *Plan {
	b, _ := json.Marshal(p)
	q := &Plan{}
	json.Unmarshal(b, q)
	return q
}

func genMuts(r *simcore.Rand, k *Knobs) []Mut {
	n := r.Range(1, 4)
	var ms []Mut
	for i := 0; i < n; i++ {
		ms = append(ms, Mut{K: r.Pick(4, 8, 3, 2, 2, 1), A: r.Intn(k.Accounts), S: r.Intn(64)})
	}
	return ms
}

func genRead(r *simcore.Rand, k *Knobs, iter bool) Read {
	rd := Read{Root: r.Intn(1 << 12), A: r.Intn(k.Accounts), S: r.Intn(k.Slots), Held: r.Bool(0.3)}
	if iter {
		rd.Kind = 4 + r.Intn(4)
		switch r.Intn(5) {
		case 0:
			rd.Seek = 0
		case 1:
			rd.Seek = -1
		default:
			rd.Seek = 1 + r.Intn(2*maxAccounts)
		}
		rd.Held = false
		return rd
	}
	rd.Kind = r.Pick(4, 4, 5, 2)
	if rd.Kind == 2 {
		rd.S = r.Intn(64)
		if r.Bool(0.15) {
			rd.S = -1 - r.Intn(16)
		}
	}
	return rd
}

// genOps draws a main-actor script of n operations for the layered-read workloads.
func genOps(r *simcore.Rand, k *Knobs, n int, readW, iterW int) []Op {
	var ops []Op
	for i := 0; i < n; i++ {
		switch r.Pick(12, 2, 1, readW, 1, iterW) {
		case 0:
			op := Op{K: "upd", M: genMuts(r, k)}
			if r.Bool(0.12) {
				op.P = 1 + r.Intn(64) // fork from some live root
			}
			ops = append(ops, op)
		case 1:
			ops = append(ops, Op{K: "dup", P: r.Intn(16), T: r.Intn(64)})
		case 2:
			ops = append(ops, Op{K: "commit", T: r.Intn(64)})
		case 3:
			rd := genRead(r, k, false)
			ops = append(ops, Op{K: "read", R: &rd})
		case 4:
			ops = append(ops, Op{K: "size"})
		case 5:
			rd := genRead(r, k, true)
			ops = append(ops, Op{K: "read", R: &rd})
		}
	}
	return ops
}

// shrinkPlan yields simpler plans, most aggressive first.
func shrinkPlan(pl any) []any {
	p := pl.(*Plan)
	var out []any
	add := func(f func(q *Plan)) {
		q := clonePlan(p)
		q.OnlyCut, q.OnlyDraw = 0, 0
		f(q)
		out = append(out, q)
	}
	if len(p.Phases) > 1 {
		for i := range p.Phases {
			i := i
			add(func(q *Plan) { q.Phases = append(q.Phases[:i], q.Phases[i+1:]...) })
		}
	}
	for i := range p.Phases {
		i := i
		if len(p.Phases[i].Readers) > 0 {
			add(func(q *Plan) { q.Phases[i].Readers = nil })
			for j := range p.Phases[i].Readers {
				j := j
				add(func(q *Plan) {
					q.Phases[i].Readers = append(q.Phases[i].Readers[:j], q.Phases[i].Readers[j+1:]...)
				})
			}
		}
		for _, ops := range simcore.ShrinkSlice(p.Phases[i].Ops) {
			ops := ops
			add(func(q *Plan) { q.Phases[i].Ops = ops })
		}
		for j := range p.Phases[i].Readers {
			j := j
			for _, rs := range simcore.ShrinkSlice(p.Phases[i].Readers[j]) {
				rs := rs
				if len(rs) == 0 {
					continue
				}
				add(func(q *Plan) { q.Phases[i].Readers[j] = rs })
			}
		}
		if p.Phases[i].End != "" && i == len(p.Phases)-1 {
			add(func(q *Plan) { q.Phases[i].End = "" })
		}
	}
	for i := range p.Phases {
		for j, op := range p.Phases[i].Ops {
			i, j := i, j
			if len(op.M) > 1 {
				add(func(q *Plan) { q.Phases[i].Ops[j].M = q.Phases[i].Ops[j].M[:1] })
			}
		}
	}
	if !p.K.NoAsyncFlush {
		add(func(q *Plan) { q.K.NoAsyncFlush = true })
	}
	if p.K.TrienodeHistory >= 0 {
		add(func(q *Plan) { q.K.TrienodeHistory = -1 })
	}
	if p.K.TrieClean != 0 || p.K.StateClean != 0 {
		add(func(q *Plan) { q.K.TrieClean, q.K.StateClean = 0, 0 })
	}
	if p.K.JournalFile {
		add(func(q *Plan) { q.K.JournalFile = false })
	}
	for _, t := range simcore.ShrinkTape(p.Tape) {
		t := t
		add(func(q *Plan) { q.Tape = t })
	}
	return out
}
