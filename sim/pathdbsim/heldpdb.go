package pathdbsim

import (
	"fmt"

	"github.com/ethereum/go-ethereum/common"

	"verifsim/simcore"
)

// Held path-database iterators of the main actor (C22): `popen` opens a fast or
// binary iterator into one of four slots and drains a few entries, `pdrain`
// drains it to the end after whatever Update/Commit happened in between. A
// fully constructed iterator works on immutable diff layers, the disk layer's
// buffer (stale-checked) and a key-value snapshot: what it yields must be a
// prefix of the requested state's entries, whatever happens to the tree; it may
// fail once the tree has changed.

func (rn *runner) popen(op Op) *simcore.Violation {
	s := op.T % len(rn.pslots)
	if old := rn.pslots[s]; old != nil {
		old.release()
		rn.pslots[s] = nil
	}
	rd := *op.R
	rn.mu.Lock()
	st := rn.selAny(rd.Root)
	live := rn.m.live(st.root)
	epoch := int(rn.opStarted)
	rn.mu.Unlock()
	k := &rn.p.K
	h := &heldIter{rd: rd, st: st, acct: rd.A % k.Accounts, epoch: epoch}
	var err error
	if v := guard("iterator-open", func() {
		switch rd.Kind {
		case 4, 6:
			seek := seekHash(rd.Seek, false)
			hs, vs := st.sortedAccounts(seek)
			for i := range hs {
				h.want = append(h.want, [2][]byte{hs[i][:], vs[i]})
			}
			if rd.Kind == 4 {
				it, e := rn.w.db.AccountIterator(st.root, seek)
				if err = e; e != nil {
					return
				}
				h.next, h.fin, h.release = it.Next, it.Error, it.Release
				h.cur = func() ([]byte, []byte) { x := it.Hash(); return x[:], common.CopyBytes(it.Account()) }
			} else {
				it, e := rn.w.db.VerifBinaryAccountIterator(st.root, seek)
				if err = e; e != nil {
					return
				}
				h.next, h.fin, h.release = it.Next, it.Error, it.Release
				h.cur = func() ([]byte, []byte) { x := it.Hash(); return x[:], common.CopyBytes(it.Account()) }
			}
		default:
			seek := seekHash(rd.Seek, true)
			hs, vs := st.sortedSlots(h.acct, seek)
			for i := range hs {
				h.want = append(h.want, [2][]byte{hs[i][:], vs[i]})
			}
			if rd.Kind == 5 {
				it, e := rn.w.db.StorageIterator(st.root, uniAddrHash[h.acct], seek)
				if err = e; e != nil {
					return
				}
				h.next, h.fin, h.release = it.Next, it.Error, it.Release
				h.cur = func() ([]byte, []byte) { x := it.Hash(); return x[:], common.CopyBytes(it.Slot()) }
			} else {
				it, e := rn.w.db.VerifBinaryStorageIterator(st.root, uniAddrHash[h.acct], seek)
				if err = e; e != nil {
					return
				}
				h.next, h.fin, h.release = it.Next, it.Error, it.Release
				h.cur = func() ([]byte, []byte) { x := it.Hash(); return x[:], common.CopyBytes(it.Slot()) }
			}
		}
	}); v != nil {
		return v
	}
	if err != nil {
		if live {
			return simcore.Violf("live-root-unreadable", "iterator (kind %d) at live state #%d could not be opened: %v", rd.Kind, st.idx, err)
		}
		return nil
	}
	if !live {
		h.release()
		return simcore.Violf("dropped-root-readable", "an iterator was handed out for root %x (state #%d) which is not in the layer tree", st.root[:4], st.idx)
	}
	var ended bool
	if v := guard("iterator-next", func() { ended = h.drain(op.P) }); v != nil {
		return v
	}
	if v := rn.judgeHeld(h, ended); v != nil || ended {
		h.release()
		return v
	}
	rn.pslots[s] = h
	rn.probe("iterator-held")
	return nil
}

func (rn *runner) pdrain(slot int) *simcore.Violation {
	s := slot % len(rn.pslots)
	h := rn.pslots[s]
	if h == nil {
		return nil
	}
	rn.pslots[s] = nil
	defer h.release()
	if v := guard("iterator-next", func() { h.drain(-1) }); v != nil {
		return v
	}
	v := rn.judgeHeld(h, true)
	rn.mu.Lock()
	rn.logf("M", "held iter #%d kind=%d -> %d entries", h.st.idx, h.rd.Kind, len(h.got))
	rn.mu.Unlock()
	return v
}

func (rn *runner) releaseHeld() {
	for i, h := range rn.pslots {
		if h != nil {
			h.release()
			rn.pslots[i] = nil
		}
	}
}

func (rn *runner) judgeHeld(h *heldIter, ended bool) *simcore.Violation {
	rn.mu.Lock()
	changed := int(rn.opStarted) != h.epoch
	orphan := false
	if l := rn.m.layers[h.st.root]; l != nil {
		orphan = l.orphan
	}
	rn.mu.Unlock()
	_ = orphan
	kindName := [...]string{"", "", "", "", "account-iterator", "storage-iterator", "binary-account-iterator", "binary-storage-iterator"}[h.rd.Kind]
	where := fmt.Sprintf("held %s of the main actor at state #%d root %x (account %d, seek=%d, tree changed since open=%v)", kindName, h.st.idx, h.st.root[:4], h.acct, h.rd.Seek, changed)
	for i, g := range h.got {
		if i >= len(h.want) {
			return simcore.Violf("iterator-extra-entry", "%s: entry %d (%x) beyond the %d entries of the state", where, i, g[0][:4], len(h.want))
		}
		if !eq(g[0], h.want[i][0]) {
			return simcore.Violf("iterator-wrong-sequence", "%s: entry %d has hash %x, expected %x", where, i, g[0][:4], h.want[i][0][:4])
		}
		if !eq(g[1], h.want[i][1]) {
			return simcore.Violf("iterator-wrong-value", "%s: entry %d (%x) has value %x, the state holds %x", where, i, g[0][:4], g[1], h.want[i][1])
		}
	}
	if !ended {
		return nil
	}
	if err := h.fin(); err != nil {
		if !changed {
			return simcore.Violf("iterator-failed", "%s: iteration failed after %d entries although no layer changed during it: %v", where, len(h.got), err)
		}
		rn.probe("iterator-failed-on-stale-base")
		return nil
	}
	if len(h.got) != len(h.want) {
		return simcore.Violf("iterator-incomplete", "%s: iteration ended without error after %d of %d entries", where, len(h.got), len(h.want))
	}
	rn.probe("iterator-complete")
	if changed {
		rn.probe("held-iterator-survived-tree-change")
	}
	return nil
}
