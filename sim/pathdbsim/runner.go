package pathdbsim

import (
	"bytes"
	"errors"
	"encoding/binary"
	"fmt"
	"os"
	"sort"
	"strings"
	"sync"

	"github.com/ethereum/go-ethereum/common"
	"github.com/ethereum/go-ethereum/core/rawdb"
	"github.com/ethereum/go-ethereum/crypto"
	"github.com/ethereum/go-ethereum/triedb/database"

	"verifsim/simcore"
	"verifsim/simdisk"
)

// life is one interval during which a root was in the layer tree, in harness
// ticks: [addStart,addEnd] is the Update that linked it, [dropStart,dropEnd] the
// operation that dropped it (0 = not yet).
type life struct {
	addStart, addEnd, dropStart, dropEnd uint64
	born                                 bool // live since before the first tick
}

type runner struct {
	p   *Plan
	w   *world
	m   *model
	res *simcore.Result

	mu        sync.Mutex
	tick      uint64
	opStarted uint64 // mutating main-actor operations started / finished
	opDone    uint64
	lives     map[common.Hash][]*life
	everCanon map[common.Hash]bool
	salt      uint64
	block     uint64
	viol      *simcore.Violation
	logs      map[string]simcore.Hash64
	trace     bool
	scheduled bool // main actor runs under the scheduler (gates at step boundaries)
	stop      bool // a recorded finding was hit: the model can no longer follow, end the run quietly

	// bookkeeping for the crash oracle (C20)
	journals  []journalRec                    // every clean Journal() of the recorded run
	pairs     map[uint64]map[common.Hash]bool // (state id, root) pairs that were ever on the flattened chain
	parentOf  map[common.Hash]common.Hash     // root -> parent root of the accepted Update that created its layer
	maxIDEver uint64
	recovers  []recoverRec // every Recover the recorded run started on a recoverable root

	recStarted, recDone  uint64 // Recover calls started / finished (historical readers)
	pslots               [4]*heldIter // held iterators of the main actor (C22)
	recoverWhileIndexing bool         // a Recover ran while the initial index run was unfinished
	elementless          bool   // a flattened trienode history had no index elements

	// per root: intervals [t0,t1] (harness ticks, t1 == 0: still running) of the
	// operations that flattened the root itself into the disk layer / that turned
	// it into a fork child of the flattened layer (re-linked by a loop in cap)
	baseIv, forkIv map[common.Hash][]*opIv
}

type opIv struct{ t0, t1 uint64 }

func overlapsIv(ivs []*opIv, inv, ret uint64) bool {
	for _, iv := range ivs {
		if iv.t0 <= ret && (iv.t1 == 0 || iv.t1 >= inv) {
			return true
		}
	}
	return false
}

// noteIntervals records, for an operation that starts at tick t0, which roots it
// flattens into the disk layer and which become fork children of the flattened
// layer (call with rn.mu held, after the model has been advanced).
func (rn *runner) noteIntervals(t0 uint64, flat []common.Hash, preOrphan map[common.Hash]bool) {
	if rn.baseIv == nil {
		rn.baseIv, rn.forkIv = map[common.Hash][]*opIv{}, map[common.Hash][]*opIv{}
	}
	for _, r := range flat {
		rn.baseIv[r] = append(rn.baseIv[r], &opIv{t0: t0})
	}
	for r, l := range rn.m.layers {
		if l.orphan && !preOrphan[r] {
			rn.forkIv[r] = append(rn.forkIv[r], &opIv{t0: t0})
		}
	}
}

func (rn *runner) orphanSet() map[common.Hash]bool {
	out := map[common.Hash]bool{}
	for r, l := range rn.m.layers {
		if l.orphan {
			out[r] = true
		}
	}
	return out
}

type recoverRec struct {
	seq uint64 // global sequence number when it started
	k   uint64 // target state id
}

// journalRec describes one journal the recorded run wrote.
type journalRec struct {
	startSeq, endSeq uint64        // global sequence numbers around the Journal() call
	kvRoot           common.Hash   // persistent (key-value) state the journal is bound to
	diskID           uint64        // state id of the journaled disk layer (>= persistent id)
	chain            []common.Hash // journaled layers, disk layer first
}

func newRunner(p *Plan, w *world, res *simcore.Result) *runner {
	rn := &runner{p: p, w: w, res: res, m: newModel(p.K.MaxDiff), lives: map[common.Hash][]*life{},
		everCanon: map[common.Hash]bool{}, logs: map[string]simcore.Hash64{}, trace: os.Getenv("VERIF_TRACE") != ""}
	rn.lives[rn.m.base] = []*life{{born: true}}
	rn.everCanon[rn.m.base] = true
	rn.pairs = map[uint64]map[common.Hash]bool{0: {rn.m.base: true}}
	rn.parentOf = map[common.Hash]common.Hash{}
	return rn
}

var probeMu sync.Mutex

// probe counts a rare-branch probe (actors call it concurrently).
func (rn *runner) probe(name string) {
	probeMu.Lock()
	rn.res.Probes[name]++
	probeMu.Unlock()
}

func (rn *runner) tracef(format string, a ...any) {
	if rn.trace {
		fmt.Printf("  | "+format+"\n", a...)
	}
}

func (rn *runner) fail(v *simcore.Violation) *simcore.Violation {
	rn.mu.Lock()
	if rn.viol == nil && v != nil {
		rn.viol = v
	}
	rn.mu.Unlock()
	return v
}

func (rn *runner) failed() bool {
	rn.mu.Lock()
	defer rn.mu.Unlock()
	return rn.viol != nil || rn.stop
}

// finding reports a defect of the tree under test that has its own stable key.
// If the key is a recorded finding the run is ended quietly (the model cannot
// follow the database past it), otherwise it is a violation.
func (rn *runner) finding(kind, format string, a ...any) *simcore.Violation {
	key := "stale-parent-link:" + kind
	if simcore.IsKnown(key) || os.Getenv("PDB_ASSUME_KNOWN") != "" { // env: development aid only
		rn.mu.Lock()
		rn.res.KnownHit(key)
		if kind == "flatten" || kind == "journal" {
			// the failed mutation leaves the database where the model cannot follow
			rn.stop = true
		}
		rn.mu.Unlock()
		return nil
	}
	return &simcore.Violation{Oracle: "stale-parent-link", Key: key, Msg: fmt.Sprintf(format, a...)}
}

// keyed reports a defect with its own stable key; a recorded one is counted and
// (stop) ends the run quietly.
func (rn *runner) keyed(oracle, key string, stop bool, format string, a ...any) *simcore.Violation {
	if simcore.IsKnown(key) || os.Getenv("PDB_ASSUME_KNOWN") != "" {
		rn.mu.Lock()
		rn.res.KnownHit(key)
		if stop {
			rn.stop = true
		}
		rn.mu.Unlock()
		return nil
	}
	return &simcore.Violation{Oracle: oracle, Key: key, Msg: fmt.Sprintf(format, a...)}
}

// logf appends to the actor's own observation log (determinism fingerprint).
func (rn *runner) logf(actor string, format string, a ...any) {
	h, ok := rn.logs[actor]
	if !ok {
		h = simcore.NewHash()
	}
	s := fmt.Sprintf(format, a...)
	rn.logs[actor] = h.String(s).String("\n")
	if rn.trace {
		fmt.Printf("  %s: %s\n", actor, s)
	}
}

func (rn *runner) gate(label string) {
	if rn.scheduled {
		rn.w.sched.Gate(label)
	}
}

// ---- selectors (call with rn.mu held)

// usable returns the live roots operations may build on: all of them, or (most
// runs) only those that are not orphan-linked, so that the recorded finding does
// not end every forked run early.
func (rn *runner) usable() []common.Hash {
	lr := rn.m.liveRoots()
	if rn.p.OrphanOK {
		return lr
	}
	var out []common.Hash
	for _, r := range lr {
		if !rn.m.layers[r].orphan {
			out = append(out, r)
		}
	}
	return out
}

func (rn *runner) tip() common.Hash {
	lr := rn.usable()
	return lr[len(lr)-1]
}

func (rn *runner) selLive(sel int) common.Hash {
	lr := rn.usable()
	if sel <= 0 {
		return lr[len(lr)-1]
	}
	return lr[(sel-1)%len(lr)]
}

func (rn *runner) selAny(sel int) *state {
	if sel < 0 {
		sel = -sel
	}
	if sel&1 == 1 {
		lr := rn.m.liveRoots()
		return rn.m.states[lr[(sel>>1)%len(lr)]]
	}
	return rn.m.order[(sel>>1)%len(rn.m.order)]
}

// ---- liveness intervals (call with rn.mu held)

func liveSet(m *model) map[common.Hash]bool {
	s := make(map[common.Hash]bool, len(m.layers))
	for r := range m.layers {
		s[r] = true
	}
	return s
}

// beginMut is called before a tree-changing call into the database, after the
// model has been advanced: it opens the intervals.
func (rn *runner) beginMut(pre map[common.Hash]bool) uint64 {
	rn.tick++
	t0 := rn.tick
	rn.opStarted++
	for r := range pre {
		if rn.m.layers[r] == nil {
			ls := rn.lives[r]
			ls[len(ls)-1].dropStart = t0
		}
	}
	for r := range rn.m.layers {
		if !pre[r] {
			rn.lives[r] = append(rn.lives[r], &life{addStart: t0})
		}
	}
	for id, c := range rn.m.canon {
		rn.everCanon[c.root] = true
		if rn.pairs[uint64(id)] == nil {
			rn.pairs[uint64(id)] = map[common.Hash]bool{}
		}
		rn.pairs[uint64(id)][c.root] = true
	}
	if n := uint64(len(rn.m.canon) - 1); n > rn.maxIDEver {
		rn.maxIDEver = n
	}
	return t0
}

func (rn *runner) endMut(t0 uint64) {
	rn.tick++
	t1 := rn.tick
	rn.opDone++
	for _, m := range []map[common.Hash][]*opIv{rn.baseIv, rn.forkIv} {
		for _, ivs := range m {
			if iv := ivs[len(ivs)-1]; iv.t0 == t0 && iv.t1 == 0 {
				iv.t1 = t1
			}
		}
	}
	for _, ls := range rn.lives {
		l := ls[len(ls)-1]
		if l.addStart == t0 && l.addEnd == 0 {
			l.addEnd = t1
		}
		if l.dropStart == t0 && l.dropEnd == 0 {
			l.dropEnd = t1
		}
	}
}

func (rn *runner) surelyLive(root common.Hash, inv, ret uint64) bool {
	for _, l := range rn.lives[root] {
		if (l.born || (l.addEnd != 0 && l.addEnd <= inv)) && (l.dropStart == 0 || l.dropStart > ret) {
			return true
		}
	}
	return false
}

func (rn *runner) surelyDead(root common.Hash, inv, ret uint64) bool {
	for _, l := range rn.lives[root] {
		before := !l.born && l.addStart > ret
		after := l.dropEnd != 0 && l.dropEnd < inv
		if !before && !after {
			return false
		}
	}
	return true
}

// ---- main actor operations

func (rn *runner) applyMuts(c *content, ms []Mut) {
	rn.salt++
	s := rn.salt
	k := &rn.p.K
	for n, mu := range ms {
		a := mu.A % k.Accounts
		val := s*64 + uint64(n)*8
		if a == 1 && rn.keepTwoAccounts() && (mu.K == 3 || mu.K == 4) {
			mu.K = 0
		}
		if a == 0 && (mu.K == 3 || mu.K == 4) {
			// account 0 carries the per-transition salt: it is never destructed, so
			// that every produced state is unique
			mu.K = 0
		}
		switch mu.K {
		case 0:
			if c[a] == nil {
				c[a] = &acct{Nonce: 1, Bal: val + 1}
			} else {
				c[a].Nonce++
				c[a].Bal = val + 1
			}
		case 1:
			if c[a] == nil {
				c[a] = &acct{Nonce: 1, Bal: val + 1}
			}
			c[a].Slots[mu.S%k.Slots] = val + 2
		case 2:
			if c[a] != nil {
				c[a].Slots[mu.S%k.Slots] = 0
			}
		case 3:
			c[a] = nil
		case 4:
			na := &acct{Nonce: 1, Bal: val + 3}
			for j := 0; j < k.Slots; j++ {
				if mu.S>>uint(j)&1 == 1 {
					na.Slots[j] = val + 4 + uint64(j)
				}
			}
			c[a] = na
		case 5:
			if c[a] != nil {
				c[a].Slots = [maxSlots]uint64{}
			}
		}
	}
	if c[0] == nil {
		c[0] = &acct{Nonce: 1}
	}
	c[0].Bal = s*64 + 63
	if rn.keepTwoAccounts() && c[1] == nil {
		c[1] = &acct{Nonce: 1, Bal: 7}
	}
}

// noteFlattened records whether a flattened transition changed nothing but the
// account trie's root node: its trienode history has no index elements.
func (rn *runner) noteFlattened(flat []common.Hash) {
	if !rn.p.K.Indexing || rn.p.K.TrienodeHistory < 0 {
		return
	}
	for _, r := range flat {
		c := rn.m.states[r]
		p := rn.m.states[rn.parentOf[r]]
		if c == nil || p == nil {
			continue
		}
		changed := 0
		owners := map[common.Hash]bool{}
		for o := range c.nodes {
			owners[o] = true
		}
		for o := range p.nodes {
			owners[o] = true
		}
		for o := range owners {
			for path, blob := range c.nodes[o] {
				if !eq(p.nodes[o][path], blob) && !(o == (common.Hash{}) && path == "") {
					changed++
				}
			}
			for path := range p.nodes[o] {
				if _, ok := c.nodes[o][path]; !ok && !(o == (common.Hash{}) && path == "") {
					changed++
				}
			}
		}
		if changed == 0 {
			rn.elementless = true
		}
	}
}

// keepTwoAccounts: with trienode history indexing, a transition that changes
// nothing but the account trie's root node (a one-account state) produces a
// history without index elements, on which the indexer wedges (recorded finding
// "indexer-wedged-by-elementless-history"); most runs keep two accounts alive
// so that they get past it.
func (rn *runner) keepTwoAccounts() bool {
	return rn.p.K.Indexing && rn.p.K.TrienodeHistory >= 0 && !rn.p.TinyTrie && rn.p.K.Accounts >= 2
}

func (rn *runner) doOp(op Op) *simcore.Violation {
	switch op.K {
	case "upd":
		rn.mu.Lock()
		parent := rn.selLive(op.P)
		pst := rn.m.states[parent]
		c := pst.c.clone()
		rn.applyMuts(c, op.M)
		child := rn.m.addState(c)
		rn.mu.Unlock()
		return rn.update(pst, child)
	case "dup":
		rn.mu.Lock()
		parent := rn.selLive(op.P)
		target := rn.m.order[op.T%len(rn.m.order)]
		if !rn.m.live(target.root) && rn.everCanon[target.root] {
			// re-adding a root that already has a place in the flattened history is
			// outside the database's contract (root -> id must stay unique)
			rn.mu.Unlock()
			return nil
		}
		pst := rn.m.states[parent]
		rn.mu.Unlock()
		return rn.update(pst, target)
	case "commit":
		return rn.commit(op.T)
	case "read":
		return rn.read("M", *op.R, true)
	case "hread":
		return rn.hread("M", *op.R, false)
	case "popen":
		return rn.popen(op)
	case "pdrain":
		return rn.pdrain(op.T)
	case "size":
		return guard("size", func() { rn.w.db.Size() })
	case "recover":
		rn.mu.Lock()
		st := rn.m.order[op.T%len(rn.m.order)]
		rn.mu.Unlock()
		return rn.recoverOne(st)
	case "recall":
		return rn.recoverAll()
	case "diskcheck":
		return rn.diskCheck(true)
	}
	simcore.Harnessf("unknown op kind %q", op.K)
	return nil
}

// update performs Database.Update(child, parent) and judges the outcome.
func (rn *runner) update(pst, child *state) *simcore.Violation {
	nodes, states := transition(pst, child, rn.p.K.RawKeys, rn.p.K.TrienodeHistory >= 0)
	rn.mu.Lock()
	pre := liveSet(rn.m)
	preOrphan := rn.orphanSet()
	outcome, flat := rn.m.update(child.root, pst.root)
	if outcome == updAdded {
		rn.parentOf[child.root] = pst.root
	}
	rn.noteFlattened(flat)
	t0 := rn.beginMut(pre)
	rn.noteIntervals(t0, flat, preOrphan)
	rn.block++
	block := rn.block
	rn.mu.Unlock()

	var err error
	v := guard("update", func() { err = rn.w.db.Update(child.root, pst.root, block, nodes, states) })

	rn.mu.Lock()
	rn.endMut(t0)
	rn.logf("M", "upd #%d on #%d outcome=%d flat=%d err=%v", child.idx, pst.idx, outcome, len(flat), err != nil)
	// the capped chain passes an orphan link: either a flattened layer is one, or
	// the new head hangs above one (the tree under test then still sees the old,
	// already flattened diff layer below it and tries to flatten that again)
	capOrphan := rn.m.capOrphan
	if l := rn.m.layers[child.root]; l != nil && l.orphan {
		capOrphan = true
	}
	rn.mu.Unlock()
	if v != nil {
		return v
	}
	if err != nil && rn.p.K.Indexing && rn.p.K.TrienodeHistory >= 0 && strings.Contains(err.Error(), "history indexing is out of order") && !strings.Contains(err.Error(), "last: null") {
		return rn.keyed("update-failed", "indexer-wedged-by-elementless-history", true,
			"Update(#%d on #%d) failed: %v. An earlier trienode history changed nothing but the account trie's root node (path \"\", skipped by the index scheme), so it had no index elements; batchIndexer.finish returns early for pending==0 without advancing the index metadata, and indexSingle then refuses every later history", child.idx, pst.idx, err)
	}
	if err != nil && rn.p.K.Indexing && strings.Contains(err.Error(), "history indexing is out of order, last: null") {
		return rn.keyed("update-failed", "indexer-rollback-to-genesis-loses-metadata", true,
			"Update(#%d on #%d) failed: %v. A Recover down to state id 0 unindexed history 1, for which unindexing deletes the index metadata altogether; indexSingle refuses to index history 1 again without metadata, so no state can be flattened any more", child.idx, pst.idx, err)
	}
	if capOrphan && err != nil && outcome != updReject {
		return rn.finding("flatten", "Update(#%d on #%d) had to flatten a layer that was a fork child of an earlier flattened layer (still in the layer tree, parent pointer left on the stale pre-flatten layer) and failed: %v", child.idx, pst.idx, err)
	}
	if len(flat) > 0 {
		rn.probe("flatten")
	}
	switch outcome {
	case updReject:
		if child.root == pst.root {
			rn.probe("empty-transition")
			if err == nil {
				return simcore.Violf("empty-transition-accepted", "Update(root=%x, parent=%x) with root == parent returned nil", child.root[:4], pst.root[:4])
			}
		}
	case updSkipped:
		rn.probe("repeated-root")
		if err != nil {
			return simcore.Violf("update-failed", "Update with the root of an existing layer (#%d %x on #%d) failed: %v", child.idx, child.root[:4], pst.idx, err)
		}
	case updAdded:
		if err != nil {
			return simcore.Violf("update-failed", "Update(#%d %x on live parent #%d %x) failed: %v", child.idx, child.root[:4], pst.idx, pst.root[:4], err)
		}
	}
	return rn.checkTree("after Update")
}

func (rn *runner) commit(sel int) *simcore.Violation {
	rn.mu.Lock()
	root := rn.selLive(sel)
	st := rn.m.states[root]
	isDisk := rn.m.layers[root].disk
	pre := liveSet(rn.m)
	var flat []common.Hash
	if !isDisk {
		flat = rn.m.cap(root, 0)
		rn.noteFlattened(flat)
	}
	t0 := rn.beginMut(pre)
	rn.noteIntervals(t0, flat, rn.orphanSet())
	rn.mu.Unlock()

	var err error
	v := guard("commit", func() { err = rn.w.db.Commit(root, false) })

	rn.mu.Lock()
	rn.endMut(t0)
	rn.logf("M", "commit #%d disk=%v flat=%d err=%v", st.idx, isDisk, len(flat), err != nil)
	capOrphan := !isDisk && rn.m.capOrphan
	rn.mu.Unlock()
	if v != nil {
		return v
	}
	if err != nil && rn.p.K.Indexing && strings.Contains(err.Error(), "history indexing is out of order") {
		if strings.Contains(err.Error(), "last: null") {
			return rn.keyed("commit-failed", "indexer-rollback-to-genesis-loses-metadata", true, "Commit(#%d) failed: %v (after a Recover down to state id 0 the index metadata is deleted and history 1 can never be indexed again)", st.idx, err)
		}
		if rn.p.K.TrienodeHistory >= 0 {
			return rn.keyed("commit-failed", "indexer-wedged-by-elementless-history", true, "Commit(#%d) failed: %v (an earlier trienode history that changed only the account trie root had no index elements; the index metadata was not advanced)", st.idx, err)
		}
	}
	if capOrphan && err != nil {
		return rn.finding("flatten", "Commit(#%d), a live layer that was a fork child of an earlier flattened layer (parent pointer left on the stale pre-flatten layer), failed: %v", st.idx, err)
	}
	if isDisk {
		return rn.checkTree("after refused Commit")
	}
	rn.probe("commit")
	if err != nil {
		return simcore.Violf("commit-failed", "Commit(#%d %x) of a live diff layer failed: %v", st.idx, root[:4], err)
	}
	if v := rn.checkTree("after Commit"); v != nil {
		return v
	}
	return rn.diskCheck(true)
}

// checkTree compares the database's layer tree with the model (main actor only:
// nobody else changes the tree).
func (rn *runner) checkTree(when string) *simcore.Violation {
	var got []struct {
		root, parent common.Hash
		id           uint64
		disk         bool
	}
	if v := guard("layers", func() {
		for _, l := range rn.w.db.VerifLayers() {
			got = append(got, struct {
				root, parent common.Hash
				id           uint64
				disk         bool
			}{l.Root, l.Parent, l.ID, l.Disk})
		}
	}); v != nil {
		return v
	}
	rn.mu.Lock()
	defer rn.mu.Unlock()
	if len(got) != len(rn.m.layers) {
		return simcore.Violf("layer-tree-mismatch", "%s: database holds %d layers, the flattening policy gives %d (%s)", when, len(got), len(rn.m.layers), rn.describeTrees(got))
	}
	for _, g := range got {
		l := rn.m.layers[g.root]
		if l == nil {
			return simcore.Violf("layer-tree-mismatch", "%s: database holds a layer for root %x which should have been dropped", when, g.root[:4])
		}
		if l.disk != g.disk || l.id != g.id || (!l.disk && l.parent != g.parent) {
			return simcore.Violf("layer-tree-mismatch", "%s: layer %x is (disk=%v id=%d parent=%x), expected (disk=%v id=%d parent=%x)", when, g.root[:4], g.disk, g.id, g.parent[:4], l.disk, l.id, l.parent[:4])
		}
	}
	return nil
}

func (rn *runner) describeTrees(got []struct {
	root, parent common.Hash
	id           uint64
	disk         bool
}) string {
	s := "db:"
	for _, g := range got {
		s += fmt.Sprintf(" %x/%d", g.root[:3], g.id)
	}
	s += " model:"
	for _, r := range rn.m.liveRoots() {
		s += fmt.Sprintf(" %x/%d", r[:3], rn.m.layers[r].id)
	}
	return s
}

// rlpReader is the raw form of the state reader (the concrete pathdb reader).
type rlpReader interface {
	AccountRLP(hash common.Hash) ([]byte, error)
	Storage(accountHash, storageHash common.Hash) ([]byte, error)
}

// errStaleSentinel returns err itself when it is pathdb's "layer stale" error
// (unexported there), so that errors.Is(err, errStaleSentinel(err)) is a cheap
// "is it the stale error" test; anything else yields a value errors.Is rejects.
func errStaleSentinel(err error) error {
	if err != nil && strings.Contains(err.Error(), "layer stale") {
		return err
	}
	return errNotStale
}

var errNotStale = errors.New("not the stale error")

func eq(a, b []byte) bool { return bytes.Equal(a, b) }

// ---- reads

func seekHash(seek int, storage bool) common.Hash {
	var h common.Hash
	switch {
	case seek == 0:
		return h
	case seek < 0:
		for i := range h {
			h[i] = 0xff
		}
		return h
	}
	i := (seek - 1) / 2
	if storage {
		h = uniKeyHash[i%maxSlots]
	} else {
		h = uniAddrHash[i%maxAccounts]
	}
	if seek%2 == 0 { // just after the key
		for b := len(h) - 1; b >= 0; b-- {
			h[b]++
			if h[b] != 0 {
				break
			}
		}
	}
	return h
}

// read performs one planned read as actor and judges it. certain: the actor is
// the only mutator (main actor), so liveness is known exactly.
func (rn *runner) read(actor string, rd Read, certain bool) *simcore.Violation {
	rn.mu.Lock()
	st := rn.selAny(rd.Root)
	rn.tick++
	inv := rn.tick
	doneAtInv := rn.opDone
	db := rn.w.db
	rn.mu.Unlock()
	if rn.scheduled {
		// which write buffers sit between the layers and the disk right now
		if info := db.VerifDisk(); !info.Stale {
			if info.Frozen {
				rn.probe("read-with-frozen-buffer")
			}
			if info.BufferLayers > 0 {
				rn.probe("read-with-live-buffer")
			}
		}
	}
	root := st.root
	k := &rn.p.K
	a, s := rd.A%k.Accounts, 0
	if k.Slots > 0 {
		s = ((rd.S % k.Slots) + k.Slots) % k.Slots
	}

	type obs struct {
		what string
		got  []byte
		want []byte
		err  error
		// absent node path: any empty answer or an error is right
		absent bool
	}
	var (
		openErr error
		out     []obs
		itGot   [][2][]byte
		itWant  [][2][]byte
		itErr   error
		isIter  = rd.Kind >= 4
	)
	// tree-changing operations started by the time the iterator had been constructed
	startedAtOpened := doneAtInv
	markOpened := func() {
		rn.mu.Lock()
		startedAtOpened = rn.opStarted
		rn.mu.Unlock()
	}
	v := guard("read", func() {
		switch rd.Kind {
		case 0, 1, 3:
			var sr rlpReader
			sr0, err0 := db.StateReader(root)
			if openErr = err0; openErr != nil {
				return
			}
			sr = sr0.(rlpReader)
			if rd.Held {
				rn.gate(actor + ":held")
			}
			if rd.Kind == 0 {
				b, err := sr.AccountRLP(uniAddrHash[a])
				out = append(out, obs{what: fmt.Sprintf("account %d", a), got: b, want: st.slim[a], err: err})
			} else if rd.Kind == 1 {
				b, err := sr.Storage(uniAddrHash[a], uniKeyHash[s])
				out = append(out, obs{what: fmt.Sprintf("slot %d/%d", a, s), got: b, want: st.slot[a][s], err: err})
			} else {
				for i := 0; i < k.Accounts; i++ {
					b, err := sr.AccountRLP(uniAddrHash[i])
					out = append(out, obs{what: fmt.Sprintf("account %d", i), got: b, want: st.slim[i], err: err})
					for j := 0; j < k.Slots; j++ {
						b, err := sr.Storage(uniAddrHash[i], uniKeyHash[j])
						out = append(out, obs{what: fmt.Sprintf("slot %d/%d", i, j), got: b, want: st.slot[i][j], err: err})
					}
				}
				var nr database.NodeReader
				nr, openErr = db.NodeReader(root)
				if openErr != nil {
					return
				}
				for _, n := range st.nodeList() {
					b, err := nr.Node(n.owner, []byte(n.path), crypto.Keccak256Hash(n.blob))
					out = append(out, obs{what: fmt.Sprintf("node %x:%x", n.owner[:2], n.path), got: b, want: n.blob, err: err})
				}
			}
		case 2:
			var nr database.NodeReader
			nr, openErr = db.NodeReader(root)
			if openErr != nil {
				return
			}
			if rd.Held {
				rn.gate(actor + ":held")
			}
			nl := st.nodeList()
			if rd.S >= 0 && len(nl) > 0 {
				n := nl[rd.S%len(nl)]
				b, err := nr.Node(n.owner, []byte(n.path), crypto.Keccak256Hash(n.blob))
				out = append(out, obs{what: fmt.Sprintf("node %x:%x", n.owner[:2], n.path), got: b, want: n.blob, err: err})
			} else {
				// a path that holds no node in this state
				path := []byte{byte(-rd.S % 16), byte((-rd.S + a) % 16), 15, 15, 15, 15, 15, 15, 15}
				if _, ok := st.nodes[common.Hash{}][string(path)]; ok {
					return
				}
				b, err := nr.Node(common.Hash{}, path, common.Hash{})
				out = append(out, obs{what: fmt.Sprintf("absent node %x", path), got: b, err: err, absent: true})
			}
		case 4, 6:
			seek := seekHash(rd.Seek, false)
			hs, vs := st.sortedAccounts(seek)
			for i := range hs {
				itWant = append(itWant, [2][]byte{hs[i][:], vs[i]})
			}
			var next func() bool
			var cur func() ([]byte, []byte)
			var fin func() error
			if rd.Kind == 4 {
				it, err := db.AccountIterator(root, seek)
				if openErr = err; err != nil {
					return
				}
				defer it.Release()
				next, fin = it.Next, it.Error
				cur = func() ([]byte, []byte) { h := it.Hash(); return h[:], common.CopyBytes(it.Account()) }
			} else {
				it, err := db.VerifBinaryAccountIterator(root, seek)
				if openErr = err; err != nil {
					return
				}
				defer it.Release()
				next, fin = it.Next, it.Error
				cur = func() ([]byte, []byte) { h := it.Hash(); return h[:], common.CopyBytes(it.Account()) }
			}
			markOpened()
			for {
				rn.gate(actor + ":next")
				if !next() {
					break
				}
				h, val := cur()
				if len(val) == 0 && fin() != nil {
					// the value accessor reports a stale stack by returning nil and
					// setting the error: the entry was not delivered
					break
				}
				itGot = append(itGot, [2][]byte{common.CopyBytes(h), val})
				if len(itGot) > 4*maxAccounts {
					break
				}
			}
			itErr = fin()
		case 5, 7:
			seek := seekHash(rd.Seek, true)
			hs, vs := st.sortedSlots(a, seek)
			for i := range hs {
				itWant = append(itWant, [2][]byte{hs[i][:], vs[i]})
			}
			var next func() bool
			var cur func() ([]byte, []byte)
			var fin func() error
			if rd.Kind == 5 {
				it, err := db.StorageIterator(root, uniAddrHash[a], seek)
				if openErr = err; err != nil {
					return
				}
				defer it.Release()
				next, fin = it.Next, it.Error
				cur = func() ([]byte, []byte) { h := it.Hash(); return h[:], common.CopyBytes(it.Slot()) }
			} else {
				it, err := db.VerifBinaryStorageIterator(root, uniAddrHash[a], seek)
				if openErr = err; err != nil {
					return
				}
				defer it.Release()
				next, fin = it.Next, it.Error
				cur = func() ([]byte, []byte) { h := it.Hash(); return h[:], common.CopyBytes(it.Slot()) }
			}
			markOpened()
			for {
				rn.gate(actor + ":next")
				if !next() {
					break
				}
				h, val := cur()
				if len(val) == 0 && fin() != nil {
					// the value accessor reports a stale stack by returning nil and
					// setting the error: the entry was not delivered
					break
				}
				itGot = append(itGot, [2][]byte{common.CopyBytes(h), val})
				if len(itGot) > 4*maxSlots {
					break
				}
			}
			itErr = fin()
		}
	})

	rn.mu.Lock()
	defer rn.mu.Unlock()
	rn.tick++
	ret := rn.tick
	if v != nil {
		return v
	}
	orphan := false
	if l := rn.m.layers[root]; l != nil {
		orphan = l.orphan
	}
	var live, dead bool
	if certain {
		live = rn.m.live(root)
		dead = !live
	} else {
		live, dead = rn.surelyLive(root, inv, ret), rn.surelyDead(root, inv, ret)
	}
	// a held reader or an iterator may legitimately fail when any tree change
	// overlapped its lifetime (its base layer went stale)
	overlapped := rn.opStarted != doneAtInv
	// (a sweep by a reader actor uses one reader object across many gated reads: it
	// is a held reader)
	//
	// A held point reader is excused only when its OWN root was flattened into the
	// disk layer during its lifetime (the layer object it captured then hangs off
	// the stale disk layer; callers are expected to re-open). A held reader at a
	// root that stays a diff layer must keep working across a cap below it: cap
	// holds diff.lock from before the flatten until the new parent is linked.
	ownFlattened := overlapsIv(rn.baseIv[root], inv, ret)
	forkChild := overlapsIv(rn.forkIv[root], inv, ret)
	mustSucceed := live && !(isIter && overlapped) && !((rd.Held || rd.Kind == 3) && ownFlattened)
	kindName := [...]string{"account", "slot", "node", "sweep", "account-iterator", "storage-iterator", "binary-account-iterator", "binary-storage-iterator"}[rd.Kind]
	where := fmt.Sprintf("%s read (%s) at state #%d root %x (live=%v dead=%v held=%v)", actor, kindName, st.idx, root[:4], live, dead, rd.Held)

	if openErr != nil {
		rn.logf(actor, "read #%d kind=%d open-error", st.idx, rd.Kind)
		if mustSucceed || (live && !isIter) {
			return simcore.Violf("live-root-unreadable", "%s: opening the reader failed although the root was in the layer tree for the whole call: %v", where, openErr)
		}
		rn.probe("dropped-root-refused")
		return nil
	}
	if dead && !isIter {
		return simcore.Violf("dropped-root-readable", "%s: a reader was handed out for a root that is not in the layer tree", where)
	}
	if dead && isIter {
		return simcore.Violf("dropped-root-readable", "%s: an iterator was handed out for a root that is not in the layer tree", where)
	}
	if live {
		rn.probe("live-read")
	}
	sum := simcore.NewHash()
	for _, o := range out {
		if o.absent {
			// an error or an empty answer are both right for a path that holds no node
			if o.err == nil && len(o.got) != 0 {
				return simcore.Violf("wrong-node", "%s: %s returned %d bytes, the state has no node there", where, o.what, len(o.got))
			}
			continue
		}
		if o.err != nil {
			sum = sum.String("E")
			if mustSucceed && forkChild && errors.Is(o.err, errStaleSentinel(o.err)) {
				// The root is a fork child of the layer that an overlapping cap was
				// flattening: cap holds only the capped path's diff.lock across
				// parent.persist(); the other children of the flattened layer are
				// re-linked afterwards, so a reader walking down from one of them in
				// between reaches the already-stale old disk layer.
				rn.mu.Unlock()
				v := rn.keyed("live-root-unreadable", "cap-relink-window:fork-sibling-read", false, "%s: %s failed: %v. The root stayed in the layer tree for the whole read; it is a fork child of the layer an overlapping cap flattened (triedb/pathdb/layertree.go cap: only diff.lock of the capped path is held across parent.persist(), the sibling re-link loop runs after it)", where, o.what, o.err)
				rn.mu.Lock()
				if v != nil {
					return v
				}
				continue
			}
			if mustSucceed && orphan && !forkChild && len(o.what) > 4 && o.what[:4] == "node" {
				rn.mu.Unlock()
				v := rn.finding("node-read", "%s: %s failed: %v. The root is in the layer tree, but the layer was a fork child of a layer that got flattened: its parent pointer still leads to the stale pre-flatten disk layer, so every node not written by the fork itself is unreadable", where, o.what, o.err)
				rn.mu.Lock()
				if v != nil {
					return v
				}
				continue
			}
			if mustSucceed {
				return simcore.Violf("live-root-unreadable", "%s: %s failed although the root was in the layer tree for the whole call: %v", where, o.what, o.err)
			}
			rn.probe("read-error-on-dropped-root")
			continue
		}
		sum = sum.Bytes(o.got).String("|")
		if !eq(o.got, o.want) {
			who := ""
			var ai, si int
			if n, _ := fmt.Sscanf(o.what, "account %d", &ai); n == 1 {
				who = rn.m.whoHasAccount(ai, o.got)
			} else if n, _ := fmt.Sscanf(o.what, "slot %d/%d", &ai, &si); n == 2 {
				who = rn.m.whoHasSlot(ai, si, o.got)
			}
			oracle := "wrong-value"
			if len(o.what) > 4 && o.what[:4] == "node" {
				oracle = "wrong-node"
			}
			return simcore.Violf(oracle, "%s: %s = %x, the state holds %x (the returned value belongs to: %s)", where, o.what, o.got, o.want, who)
		}
	}
	if isIter && orphan && mustSucceed {
		// iterating a fork child of a flattened layer walks the stale pre-flatten
		// objects: whatever goes wrong there belongs to the recorded finding
		bad := itErr != nil || len(itGot) != len(itWant)
		for i := 0; !bad && i < len(itGot); i++ {
			bad = !eq(itGot[i][0], itWant[i][0]) || !eq(itGot[i][1], itWant[i][1])
		}
		if bad {
			rn.mu.Unlock()
			v := rn.finding("iterator", "%s seek=%d: the iterator yielded %d entries (error %v), the state has %d from the seek position; the layer is a fork child of a flattened layer and its parent pointer leads to the stale pre-flatten layers, whose write buffer is skipped silently", where, rd.Seek, len(itGot), itErr, len(itWant))
			rn.mu.Lock()
			return v
		}
	}
	if isIter && !live && !dead {
		// The root was dropped while the iterator was open. The property demands an
		// error then, never a sequence that mixes two states. The merged iterator
		// notices a stale disk layer only through its write-buffer sub-iterator; if
		// that one has nothing left (or the key-value iterator is created after the
		// flatten + flush), entries of the newer persisted state are yielded silently.
		bad := itErr == nil && len(itGot) != len(itWant)
		for i := 0; !bad && i < len(itGot); i++ {
			bad = i >= len(itWant) || !eq(itGot[i][0], itWant[i][0]) || !eq(itGot[i][1], itWant[i][1])
		}
		// Only the recorded race is excused: a flatten (+ flush) that overlapped the
		// CONSTRUCTION of the iterator, between the capture of the disk layer's
		// buffer key list and the creation of the key-value iterator. An iterator
		// that was fully constructed before the tree changed works on immutable
		// diff layers and a key-value snapshot: whatever it yields must be right.
		if bad && startedAtOpened != doneAtInv {
			key := "iterator-mixes-states-after-drop"
			if simcore.IsKnown(key) || os.Getenv("PDB_ASSUME_KNOWN") != "" {
				rn.res.KnownHit(key)
				return nil
			}
			return &simcore.Violation{Oracle: "iterator-mixes-states", Key: key, Msg: fmt.Sprintf("%s seek=%d: the root was dropped (flattened away) while the iterator was open; it yielded %d entries, error=%v, that are not a prefix of the %d entries of the requested state: entries of another (newer) state were delivered before any error", where, rd.Seek, len(itGot), itErr, len(itWant))}
		}
	}
	if isIter {
		for i, g := range itGot {
			if i >= len(itWant) {
				return simcore.Violf("iterator-extra-entry", "%s seek=%d: entry %d (%x) beyond the %d entries of the state", where, rd.Seek, i, g[0][:4], len(itWant))
			}
			if !eq(g[0], itWant[i][0]) {
				return simcore.Violf("iterator-wrong-sequence", "%s seek=%d: entry %d has hash %x, expected %x (ascending live entries from the seek position)", where, rd.Seek, i, g[0][:4], itWant[i][0][:4])
			}
			if !eq(g[1], itWant[i][1]) {
				return simcore.Violf("iterator-wrong-value", "%s seek=%d: entry %d (%x) has value %x, the state holds %x", where, rd.Seek, i, g[0][:4], g[1], itWant[i][1])
			}
			sum = sum.Bytes(g[0])
		}
		if itErr != nil {
			if mustSucceed {
				return simcore.Violf("iterator-failed", "%s seek=%d: iteration failed after %d entries although no layer changed during it: %v", where, rd.Seek, len(itGot), itErr)
			}
			rn.probe("iterator-failed-on-stale-base")
		} else if len(itGot) != len(itWant) {
			return simcore.Violf("iterator-incomplete", "%s seek=%d: iteration ended without error after %d of %d entries", where, rd.Seek, len(itGot), len(itWant))
		} else {
			rn.probe("iterator-complete")
			if len(itWant) > 0 {
				rn.probe("iterator-nonempty")
			}
		}
	}
	rn.logf(actor, "read #%d kind=%d a=%d s=%d -> %x", st.idx, rd.Kind, a, s, uint64(sum))
	return nil
}

// sweepAll reads everything at every live root and checks that dropped roots are refused.
func (rn *runner) sweepAll(actor string) *simcore.Violation {
	rn.mu.Lock()
	n := len(rn.m.order)
	rn.mu.Unlock()
	for i := 0; i < n; i++ {
		if rn.failed() {
			return nil
		}
		if v := rn.read(actor, Read{Root: 2 * i, Kind: 3}, true); v != nil {
			return v
		}
	}
	return nil
}

// ---- raw disk image

func persistentID(kv *simdisk.SimKV) uint64 {
	b, err := kv.Mem().Get([]byte("LastStateID"))
	if err != nil || len(b) != 8 {
		return 0
	}
	return binary.BigEndian.Uint64(b)
}

// rawDiskDiff compares the flat-state and trie-node key spaces of a key-value
// store with a model state; returns "" when identical.
func rawDiskDiff(mem interface {
	Get([]byte) ([]byte, error)
}, it func(prefix []byte) ([][]byte, [][]byte), st *state) string {
	want := map[string][]byte{}
	for i := 0; i < maxAccounts; i++ {
		if st.slim[i] != nil {
			want[string(append(append([]byte{}, rawdb.SnapshotAccountPrefix...), uniAddrHash[i][:]...))] = st.slim[i]
		}
		for j := 0; j < maxSlots; j++ {
			if st.slot[i][j] != nil {
				key := append(append(append([]byte{}, rawdb.SnapshotStoragePrefix...), uniAddrHash[i][:]...), uniKeyHash[j][:]...)
				want[string(key)] = st.slot[i][j]
			}
		}
	}
	for o, m := range st.nodes {
		for p, b := range m {
			var key []byte
			if o == (common.Hash{}) {
				key = append(append([]byte{}, rawdb.TrieNodeAccountPrefix...), p...)
			} else {
				key = append(append(append([]byte{}, rawdb.TrieNodeStoragePrefix...), o[:]...), p...)
			}
			want[string(key)] = b
		}
	}
	seen := 0
	for _, pre := range [][]byte{rawdb.SnapshotAccountPrefix, rawdb.SnapshotStoragePrefix, rawdb.TrieNodeAccountPrefix, rawdb.TrieNodeStoragePrefix} {
		ks, vs := it(pre)
		for i, k := range ks {
			w, ok := want[string(k)]
			if !ok {
				return fmt.Sprintf("leftover key %x (%d value bytes) which the state does not contain", k, len(vs[i]))
			}
			if !eq(w, vs[i]) {
				return fmt.Sprintf("key %x holds %x, the state has %x", k, vs[i], w)
			}
			seen++
		}
	}
	if seen != len(want) {
		keys := make([]string, 0, len(want))
		for k := range want {
			keys = append(keys, k)
		}
		sort.Strings(keys)
		for _, k := range keys {
			if _, err := mem.Get([]byte(k)); err != nil {
				return fmt.Sprintf("key %x of the state is missing on disk", k)
			}
		}
	}
	return ""
}

// diskCheck: once no flush is in flight, the raw key-value store must hold
// exactly the flat state and trie of the canonical state with the persisted id.
func (rn *runner) diskCheck(wait bool) *simcore.Violation {
	if wait {
		var err error
		if v := guard("waitflush", func() { err = rn.w.db.VerifWaitFlush() }); v != nil {
			return v
		}
		if err != nil {
			return simcore.Violf("flush-failed", "background flush failed without an injected fault: %v", err)
		}
	}
	rn.mu.Lock()
	defer rn.mu.Unlock()
	mem := rn.w.kv.Mem()
	pid := persistentID(rn.w.kv)
	if pid >= uint64(len(rn.m.canon)) {
		return simcore.Violf("disk-image", "persistent state id %d on disk, but only %d states were ever flattened", pid, len(rn.m.canon)-1)
	}
	st := rn.m.states[rn.m.canon[pid].root]
	d := rawDiskDiff(mem, func(p []byte) ([][]byte, [][]byte) { return simdisk.DumpMem(mem, p) }, st)
	if d != "" {
		return simcore.Violf("disk-image", "key-value store at persistent state id %d (state #%d root %x) is not that state: %s", pid, st.idx, st.root[:4], d)
	}
	rn.probe("disk-image-checked")
	return nil
}
