package pathdbsim

import (
	"fmt"
	"os"
	"runtime"
	"sort"
	"strconv"
	"testing"
	"time"

	"verifsim/simcore"
	"verifsim/simsched"
)

func (p *Plan) needsSched() bool {
	if !p.K.NoAsyncFlush || p.K.Indexing {
		return true
	}
	for _, ph := range p.Phases {
		if len(ph.Readers) > 0 {
			return true
		}
	}
	return false
}

// runPlan executes a plan of the exploration checks (C16, C17, C22, C18): the
// real database in a fresh world, the main actor's operations and the reader
// actors under the gate scheduler, the model judging every observation.
func runPlan(t *testing.T, pl any) *simcore.Result {
	p := pl.(*Plan)
	t0 := time.Now()
	prologue()
	runtime.GC() // the only collection point: never inside a scheduled world
	res := simcore.NewResult()
	var (
		rn    *runner
		sched *simsched.Sched
		stuck string
	)
	body := func() {
		start := time.Now()
		w := newWorld(p.K, p.Check != "C16" && p.Check != "C22")
		defer w.destroy()
		if v := guard("open", func() { w.open() }); v != nil {
			res.Fail(v)
			return
		}
		rn = newRunner(p, w, res)
		useSched := p.needsSched()
		if useSched {
			sched = simsched.New(p.Tape, simsched.ModePoll)
			sched.MaxSteps = 60000
			sched.KeepLog = os.Getenv("PDB_SCHEDLOG") != ""
			if os.Getenv("PDB_DUMP") != "" {
				n := 0
				sched.OnStep = func() error {
					n++
					if want, _ := strconv.Atoi(os.Getenv("PDB_DUMP")); n == want {
						buf := make([]byte, 1<<20)
						fmt.Printf("DUMP\n%s\n", buf[:runtime.Stack(buf, true)])
					}
					return nil
				}
			}
		}
		for pi := range p.Phases {
			ph := &p.Phases[pi]
			if useSched {
				w.setSched(sched, true, true, true)
				rn.scheduled = true
				if p.K.Indexing {
					rn.startIndexWatch()
				}
				sched.Go("M", func() {
					for _, op := range ph.Ops {
						sched.Gate("M:op")
						if rn.failed() {
							return
						}
						if v := rn.doOp(op); v != nil {
							rn.fail(v)
							return
						}
					}
				})
				for ri, script := range ph.Readers {
					name := fmt.Sprintf("R%d", ri)
					script := script
					sched.Go(name, func() {
						for _, rd := range script {
							sched.Gate(name + ":read")
							if rn.failed() {
								return
							}
							var v *simcore.Violation
							if rd.Kind >= 8 {
								v = rn.hread(name, rd, false)
							} else {
								v = rn.read(name, rd, false)
							}
							if v != nil {
								rn.fail(v)
								return
							}
						}
					})
				}
				sched.Run()
				rn.scheduled = false
				if sched.Err != nil {
					stuck = sched.Err.Error()
					return
				}
			} else {
				for _, op := range ph.Ops {
					if rn.failed() {
						break
					}
					if v := rn.doOp(op); v != nil {
						rn.fail(v)
						break
					}
				}
			}
			if rn.failed() {
				break
			}
			// quiescent end of phase: everything must be consistent
			if v := rn.quiescentChecks(); v != nil {
				rn.fail(v)
				break
			}
			if rn.failed() {
				break
			}
			if v := rn.endPhase(ph.End); v != nil {
				rn.fail(v)
				break
			}
		}
		var err error
		if v := guard("close", func() { err = w.closeDB() }); v != nil {
			rn.fail(v)
		} else if err != nil && !rn.failed() {
			rn.fail(simcore.Violf("close-failed", "Close failed: %v", err))
		}
		res.SimTimeNS = int64(time.Since(start))
	}
	if p.needsSched() {
		if dl := simsched.Bubble(t, body); dl != "" {
			if rn != nil && rn.viol != nil {
				return res.Fail(rn.viol)
			}
			return res.Fail(simcore.Violf("deadlock", "the simulated world deadlocked (every goroutine blocked, no gate to release): %s", dl))
		}
	} else {
		body()
	}
	if stuck != "" {
		simcore.Harnessf("pathdbsim scheduler: %s", stuck)
	}
	if rn == nil {
		return res
	}
	if sched != nil {
		res.SchedFP = sched.FP()
		res.Events = sched.Steps()
	}
	res.Events += int(rn.w.kv.Reads.Load() + rn.w.kv.Writes.Load())
	sfp := simcore.NewHash()
	for _, s := range rn.m.order {
		sfp = sfp.Bytes(s.root[:])
	}
	for _, c := range rn.m.canon {
		sfp = sfp.Bytes(c.root[:4])
	}
	res.StateFP = uint64(sfp)
	lh := simcore.NewHash()
	names := make([]string, 0, len(rn.logs))
	for n := range rn.logs {
		names = append(names, n)
	}
	sort.Strings(names)
	for _, n := range names {
		lh = lh.String(n).U64(uint64(rn.logs[n]))
	}
	// the determinism fingerprint is what the actors observed, not the released-gate
	// sequence: the order in which geth walks its maps (batch contents, revert of
	// node sets) changes gate labels between executions without changing outcomes
	res.LogHash = uint64(lh)
	if rn.viol != nil {
		res.Fail(rn.viol)
	}
	choices := 0
	if sched != nil {
		choices = sched.Choices()
	}
	res.NonTrivial = res.Probes["flatten"]+res.Probes["commit"] > 0 && (sched == nil || choices >= 2)
	switch p.Check {
	case "C17":
		res.NonTrivial = res.Probes["recover-done"] > 0
	case "C22":
		res.NonTrivial = res.Probes["iterator-nonempty"] > 0 && res.Probes["flatten"]+res.Probes["commit"] > 0
	case "C18":
		res.NonTrivial = res.Probes["historic-read-ok"] > 0
	}
	if sched != nil && sched.KeepLog {
		for i, l := range sched.Trace {
			fmt.Printf("SCHED %d %s\n", i, l)
		}
	}
	if os.Getenv("PDB_TIMING") != "" {
		steps := 0
		if sched != nil {
			steps = sched.Steps()
		}
		fmt.Printf("TIMING wall=%v steps=%d choices=%d states=%d kvreads=%d viol=%v known=%v sh=%d th=%d\n", time.Since(t0), steps, choices, len(rn.m.order), rn.w.kv.Reads.Load(), rn.viol != nil, res.Known, p.K.StateHistory, p.K.TrienodeHistory)
	}
	return res
}

// quiescentChecks run with no actor active: wait for the flusher, then compare
// the layer tree, every read at every root and the raw disk image.
func (rn *runner) quiescentChecks() *simcore.Violation {
	if v := rn.diskCheck(true); v != nil {
		return v
	}
	if v := rn.checkTree("at the end of the phase"); v != nil {
		return v
	}
	if v := rn.sweepAll("M"); v != nil {
		return v
	}
	if rn.p.K.Indexing {
		return rn.historicSweep()
	}
	return nil
}
