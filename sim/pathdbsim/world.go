package pathdbsim

import (
	"context"
	"fmt"
	"log/slog"
	"os"
	"path/filepath"
	"runtime/debug"
	"strings"
	"sync"

	"github.com/ethereum/go-ethereum/core/rawdb"
	"github.com/ethereum/go-ethereum/ethdb"
	"github.com/ethereum/go-ethereum/log"
	"github.com/ethereum/go-ethereum/triedb/pathdb"

	"verifsim/simcore"
	"verifsim/simdisk"
	"verifsim/simos"
	"verifsim/simsched"
)

// Knobs are the tuning parameters drawn per run.
type Knobs struct {
	Accounts        int    `json:"accounts"` // size of the address universe used (<= maxAccounts)
	Slots           int    `json:"slots"`    // storage keys used (<= maxSlots)
	WriteBuffer     int    `json:"write_buffer"`
	MaxDiff         int    `json:"max_diff_layers"`
	TrieClean       int    `json:"trie_clean"`
	StateClean      int    `json:"state_clean"`
	StateHistory    uint64 `json:"state_history"`
	TrienodeHistory int64  `json:"trienode_history"` // <0: disabled
	NoAsyncFlush    bool   `json:"no_async_flush"`
	JournalFile     bool   `json:"journal_file"`
	Indexing        bool   `json:"indexing"`
	RawKeys         bool   `json:"raw_keys"`
	Checkpoint      uint32 `json:"full_value_checkpoint"`
}

func genKnobs(r *simcore.Rand) Knobs {
	k := Knobs{
		Accounts:        r.Range(3, maxAccounts),
		Slots:           r.Range(2, maxSlots),
		MaxDiff:         r.Range(2, 16),
		NoAsyncFlush:    r.Bool(0.3),
		JournalFile:     r.Bool(0.5),
		RawKeys:         r.Bool(0.7),
		TrienodeHistory: -1,
		Checkpoint:      uint32(r.Range(1, 8)),
	}
	switch r.Intn(4) {
	case 0:
		k.WriteBuffer = 0
	case 1:
		k.WriteBuffer = r.Range(1, 600)
	case 2:
		k.WriteBuffer = r.Range(600, 8192)
	case 3:
		k.WriteBuffer = r.Range(2000, 40000)
	}
	sizes := []int{0, 32 * 1024, 256 * 1024}
	k.TrieClean = sizes[r.Intn(3)]
	k.StateClean = sizes[r.Intn(3)]
	if r.Bool(0.3) {
		k.StateHistory = 0
	} else {
		k.StateHistory = uint64(r.Range(2, 30))
	}
	if r.Bool(0.3) {
		if r.Bool(0.3) {
			k.TrienodeHistory = 0
		} else {
			k.TrienodeHistory = int64(r.Range(2, 30))
		}
	}
	return k
}

// simDB is an ethdb.Database whose key-value part is the SimKV and whose ancient
// directory points into the recorded scratch root (pathdb opens its own history
// freezers there; there is no chain freezer).
type simDB struct {
	ethdb.Database
	ancient string
}

func (d *simDB) AncientDatadir() (string, error) { return d.ancient, nil }

// afterKV adds a gate AFTER every point read, so that a reader can be parked
// holding a value it has read but not yet used (e.g. before it fills a clean cache).
type afterKV struct {
	*simdisk.SimKV
}

func (a *afterKV) Get(key []byte) ([]byte, error) {
	v, err := a.SimKV.Get(key)
	if a.SimKV.GateReads && a.SimKV.Sched != nil {
		a.SimKV.Sched.Gate("kv.got:" + keyLabel(key))
	}
	return v, err
}

func keyLabel(key []byte) string {
	if len(key) > 8 {
		key = key[:8]
	}
	return fmt.Sprintf("%x", key)
}

// world is one simulated machine: disk (KV + files) and the database on it.
type world struct {
	k     Knobs
	root  string // scratch root recorded by simos
	clock *simdisk.Clock
	kv    *simdisk.SimKV
	rec   *simos.Recorder
	disk  *simDB
	db    *pathdb.Database
	sched *simsched.Sched

	oldMaxDiff int
}

func scratchDir() string {
	d := os.Getenv("VERIF_SCRATCH")
	if d == "" {
		if st, err := os.Stat("/dev/shm"); err == nil && st.IsDir() {
			return "/dev/shm"
		}
		d = os.TempDir()
	}
	return d
}

func (k *Knobs) config(root string) *pathdb.Config {
	c := &pathdb.Config{
		TrieCleanSize:       k.TrieClean,
		StateCleanSize:      k.StateClean,
		WriteBufferSize:     k.WriteBuffer,
		StateHistory:        k.StateHistory,
		TrienodeHistory:     k.TrienodeHistory,
		EnableStateIndexing: k.Indexing,
		FullValueCheckpoint: k.Checkpoint,
		NoAsyncFlush:        k.NoAsyncFlush,
		NoAsyncGeneration:   true,
		NoHistoryIndexDelay: true,
	}
	if k.JournalFile {
		c.JournalDirectory = filepath.Join(root, "journal")
	}
	return c
}

// newWorld creates the scratch root, the recorder and an empty KV and opens a
// fresh database. record=false leaves file events unrecorded (pure pass-through).
func newWorld(k Knobs, record bool) *world {
	root, err := os.MkdirTemp(scratchDir(), "pdb-")
	if err != nil {
		simcore.Harnessf("mkdtemp: %v", err)
	}
	w := &world{k: k, root: root, clock: &simdisk.Clock{}}
	w.kv = simdisk.NewSimKV(w.clock)
	if record {
		w.rec = simos.NewRecorder(root)
		w.rec.NextSeq = w.clock.Next
	}
	simos.ResetLocks()
	simos.Install(w.rec)
	w.oldMaxDiff = pathdb.VerifSetMaxDiffLayers(k.MaxDiff)
	return w
}

// worldOn builds a world on an existing KV image and scratch root (crash reboot).
func worldOn(k Knobs, root string, kv *simdisk.SimKV) *world {
	w := &world{k: k, root: root, clock: kv.Clock, kv: kv}
	simos.ResetLocks()
	simos.Install(nil)
	w.oldMaxDiff = pathdb.VerifSetMaxDiffLayers(k.MaxDiff)
	return w
}

// open runs pathdb.New on the world's disk.
func (w *world) open() {
	if err := os.MkdirAll(filepath.Join(w.root, "ancient"), 0o755); err != nil {
		simcore.Harnessf("mkdir: %v", err)
	}
	w.disk = &simDB{Database: rawdb.NewDatabase(&afterKV{w.kv}), ancient: filepath.Join(w.root, "ancient")}
	w.db = pathdb.New(w.disk, w.k.config(w.root), false)
}

func (w *world) setSched(s *simsched.Sched, reads, writes, iter bool) {
	w.sched = s
	w.kv.Sched = s
	w.kv.GateReads, w.kv.GateWrites, w.kv.GateIter = reads, writes, iter
}

// closeDB closes the database (waits for the flusher, closes the freezers).
func (w *world) closeDB() error {
	if w.db == nil {
		return nil
	}
	err := w.db.Close()
	w.db = nil
	return err
}

func (w *world) destroy() {
	if w.db != nil {
		w.db.Close()
		w.db = nil
	}
	simos.Install(nil)
	pathdb.VerifSetMaxDiffLayers(w.oldMaxDiff)
	os.RemoveAll(w.root)
}

// ---- log.Crit -> panic

type critPanic struct{ msg string }

type critHandler struct{}

func (critHandler) Enabled(_ context.Context, l slog.Level) bool { return l >= log.LevelCrit }
func (critHandler) Handle(_ context.Context, r slog.Record) error {
	if r.Level >= log.LevelCrit {
		var sb strings.Builder
		sb.WriteString(r.Message)
		r.Attrs(func(a slog.Attr) bool {
			sb.WriteString(" " + a.Key + "=" + fmt.Sprint(a.Value.Any()))
			return true
		})
		fmt.Println("CRIT-LOG " + sb.String())
		panic(critPanic{sb.String()})
	}
	return nil
}
func (h critHandler) WithAttrs([]slog.Attr) slog.Handler { return h }
func (h critHandler) WithGroup(string) slog.Handler      { return h }

var prologueOnce sync.Once

// prologue does the process-wide set-up (outside any bubble).
func prologue() {
	prologueOnce.Do(func() {
		log.SetDefault(log.NewLogger(critHandler{}))
		simsched.Prologue()
	})
}

// guard runs f and converts a panic of the tree under test into a violation.
func guard(oracle string, f func()) (v *simcore.Violation) {
	defer func() {
		if r := recover(); r != nil {
			if hp, ok := r.(simcore.HarnessPanic); ok {
				panic(hp)
			}
			if cp, ok := r.(critPanic); ok {
				v = &simcore.Violation{Oracle: oracle + "-crit", Key: oracle + "-crit:" + classify(cp.msg), Msg: "log.Crit (process exit) in the tree under test: " + cp.msg}
				return
			}
			st := string(debug.Stack())
			v = &simcore.Violation{Oracle: oracle + "-panic", Key: oracle + "-panic:" + classify(fmt.Sprint(r)), Msg: fmt.Sprintf("panic in the tree under test: %v\n%s", r, trimStack(st))}
		}
	}()
	f()
	return nil
}

func trimStack(s string) string {
	lines := strings.Split(s, "\n")
	if len(lines) > 36 {
		lines = lines[:36]
	}
	return strings.Join(lines, "\n")
}

// classify strips numbers and hex from a message so that it can serve as a stable key.
func classify(s string) string {
	var sb strings.Builder
	lastHash := false
	for _, c := range s {
		isDigit := (c >= '0' && c <= '9') || (c >= 'a' && c <= 'f' && lastHash)
		if isDigit {
			if !lastHash {
				sb.WriteByte('N')
			}
			lastHash = true
			continue
		}
		lastHash = false
		sb.WriteRune(c)
	}
	out := sb.String()
	if len(out) > 70 {
		out = out[:70]
	}
	return out
}
