package pathdbsim

import (
	"bytes"
	"context"
	"fmt"
	"log/slog"
	"os"
	"path/filepath"
	"runtime/debug"
	"strings"
	"sync"
	"syscall"

	"github.com/ethereum/go-ethereum/core/rawdb"
	"github.com/ethereum/go-ethereum/ethdb"
	"github.com/ethereum/go-ethereum/log"
	"github.com/ethereum/go-ethereum/triedb/pathdb"

	"verifsim/simcore"
	"verifsim/simdisk"
	"verifsim/simos"
	"verifsim/simsched"
)

// Knobs are the tuning parameters drawn per run.
type Knobs struct {
	Accounts        int    `json:"accounts"` // size of the address universe used (<= maxAccounts)
	Slots           int    `json:"slots"`    // storage keys used (<= maxSlots)
	WriteBuffer     int    `json:"write_buffer"`
	MaxDiff         int    `json:"max_diff_layers"`
	TrieClean       int    `json:"trie_clean"`
	StateClean      int    `json:"state_clean"`
	StateHistory    uint64 `json:"state_history"`
	TrienodeHistory int64  `json:"trienode_history"` // <0: disabled
	NoAsyncFlush    bool   `json:"no_async_flush"`
	JournalFile     bool   `json:"journal_file"`
	Indexing        bool   `json:"indexing"`
	RawKeys         bool   `json:"raw_keys"`
	Checkpoint      uint32 `json:"full_value_checkpoint"`
	// ValueScale > 1 inflates Batch.ValueSize() (documented as approximate), so that
	// code which writes a batch out "once it exceeds ethdb.IdealBatchSize" does so
	// with the tiny states of the simulation.
	ValueScale int `json:"value_size_scale,omitempty"`
}

func genKnobs(r *simcore.Rand) Knobs {
	k := Knobs{
		Accounts:        r.Range(3, maxAccounts),
		Slots:           r.Range(2, maxSlots),
		MaxDiff:         r.Range(2, 16),
		NoAsyncFlush:    r.Bool(0.3),
		JournalFile:     r.Bool(0.5),
		RawKeys:         r.Bool(0.7),
		TrienodeHistory: -1,
		Checkpoint:      uint32(r.Range(1, 8)),
	}
	switch r.Intn(4) {
	case 0:
		k.WriteBuffer = 0
	case 1:
		k.WriteBuffer = r.Range(1, 600)
	case 2:
		k.WriteBuffer = r.Range(600, 8192)
	case 3:
		k.WriteBuffer = r.Range(2000, 40000)
	}
	sizes := []int{0, 32 * 1024, 256 * 1024}
	k.TrieClean = sizes[r.Intn(3)]
	k.StateClean = sizes[r.Intn(3)]
	if r.Bool(0.3) {
		k.StateHistory = 0
	} else {
		k.StateHistory = uint64(r.Range(2, 30))
	}
	if r.Bool(0.3) {
		if r.Bool(0.3) {
			k.TrienodeHistory = 0
		} else {
			k.TrienodeHistory = int64(r.Range(2, 30))
		}
	}
	return k
}

// simDB is an ethdb.Database whose key-value part is the SimKV and whose ancient
// directory points into the recorded scratch root (pathdb opens its own history
// freezers there; there is no chain freezer).
type simDB struct {
	ethdb.Database
	ancient string
}

func (d *simDB) AncientDatadir() (string, error) { return d.ancient, nil }

// gatedKV owns all scheduler gates of the key-value seam (the SimKV's own gates
// are switched off): one gate before and one AFTER every point read (so that a
// reader can be parked holding a value it has read but not yet used, e.g. before it
// fills a clean cache), one before every write unit. Labels are canonical: they
// hash the whole key, and a batch is labelled by its smallest key, not by the
// first one (the tree under test fills batches in map iteration order).
type gatedKV struct {
	*simdisk.SimKV
	w *world
}

func (g *gatedKV) on() bool { return g.w.gated && g.w.sched != nil }

func keyLabel(key []byte) string {
	if len(key) <= 12 {
		return fmt.Sprintf("%x", key)
	}
	return fmt.Sprintf("%x-%x", key[:4], uint64(simcore.NewHash().Bytes(key)))
}

func (g *gatedKV) Get(key []byte) ([]byte, error) {
	if g.on() {
		g.w.sched.Gate("kv.get:" + keyLabel(key))
	}
	v, err := g.SimKV.Get(key)
	if g.on() {
		g.w.sched.Gate("kv.got:" + keyLabel(key))
	}
	return v, err
}

func (g *gatedKV) Has(key []byte) (bool, error) {
	if g.on() {
		g.w.sched.Gate("kv.has:" + keyLabel(key))
	}
	return g.SimKV.Has(key)
}

func (g *gatedKV) Put(key, value []byte) error {
	if g.on() {
		g.w.sched.Gate("kv.put:" + keyLabel(key))
	}
	return g.SimKV.Put(key, value)
}

func (g *gatedKV) Delete(key []byte) error {
	if g.on() {
		g.w.sched.Gate("kv.del:" + keyLabel(key))
	}
	return g.SimKV.Delete(key)
}

func (g *gatedKV) DeleteRange(start, end []byte) error {
	if g.on() {
		g.w.sched.Gate("kv.delrange:" + keyLabel(start))
	}
	return g.SimKV.DeleteRange(start, end)
}

func (g *gatedKV) SyncKeyValue() error {
	if g.on() {
		g.w.sched.Gate("kv.sync")
	}
	return g.SimKV.SyncKeyValue()
}

func (g *gatedKV) NewBatch() ethdb.Batch { return &gatedBatch{Batch: g.SimKV.NewBatch(), g: g} }
func (g *gatedKV) NewBatchWithSize(n int) ethdb.Batch {
	return &gatedBatch{Batch: g.SimKV.NewBatchWithSize(n), g: g}
}

type gatedBatch struct {
	ethdb.Batch
	g   *gatedKV
	min []byte
	n   int
}

func (b *gatedBatch) note(key []byte) {
	if b.n == 0 || bytes.Compare(key, b.min) < 0 {
		b.min = append(b.min[:0], key...)
	}
	b.n++
}
func (b *gatedBatch) Put(key, value []byte) error { b.note(key); return b.Batch.Put(key, value) }
func (b *gatedBatch) Delete(key []byte) error      { b.note(key); return b.Batch.Delete(key) }
func (b *gatedBatch) DeleteRange(start, end []byte) error {
	b.note(start)
	return b.Batch.DeleteRange(start, end)
}
func (b *gatedBatch) Reset() { b.n, b.min = 0, b.min[:0]; b.Batch.Reset() }
func (b *gatedBatch) Write() error {
	if b.n > 0 && b.g.on() {
		b.g.w.sched.Gate("kv.batch:" + keyLabel(b.min))
	}
	return b.Batch.Write()
}

// world is one simulated machine: disk (KV + files) and the database on it.
type world struct {
	k     Knobs
	root  string // scratch root recorded by simos
	clock *simdisk.Clock
	kv    *simdisk.SimKV
	rec   *simos.Recorder
	disk  *simDB
	db    *pathdb.Database
	sched *simsched.Sched
	gated bool

	oldMaxDiff int
}

func scratchDir() string {
	d := os.Getenv("VERIF_SCRATCH")
	if d == "" {
		if st, err := os.Stat("/dev/shm"); err == nil && st.IsDir() {
			return "/dev/shm"
		}
		d = os.TempDir()
	}
	return d
}

func (k *Knobs) config(root string) *pathdb.Config {
	c := &pathdb.Config{
		TrieCleanSize:       k.TrieClean,
		StateCleanSize:      k.StateClean,
		WriteBufferSize:     k.WriteBuffer,
		StateHistory:        k.StateHistory,
		TrienodeHistory:     k.TrienodeHistory,
		EnableStateIndexing: k.Indexing,
		FullValueCheckpoint: k.Checkpoint,
		NoAsyncFlush:        k.NoAsyncFlush,
		NoAsyncGeneration:   true,
		NoHistoryIndexDelay: true,
	}
	if k.JournalFile {
		c.JournalDirectory = filepath.Join(root, "journal")
	}
	return c
}

// newWorld creates the scratch root, the recorder and an empty KV and opens a
// fresh database. record=false leaves file events unrecorded (pure pass-through).
func newWorld(k Knobs, record bool) *world {
	root, err := os.MkdirTemp(scratchDir(), "pdb-")
	if err != nil {
		simcore.Harnessf("mkdtemp: %v", err)
	}
	w := &world{k: k, root: root, clock: &simdisk.Clock{}}
	w.kv = simdisk.NewSimKV(w.clock)
	if k.ValueScale > 1 {
		w.kv.ValueSizeScale = k.ValueScale
	}
	if record {
		w.rec = simos.NewRecorder(root)
		w.rec.NextSeq = w.clock.Next
	}
	simos.ResetLocks()
	simos.Install(w.rec)
	w.oldMaxDiff = pathdb.VerifSetMaxDiffLayers(k.MaxDiff)
	return w
}

// worldOn builds a world on an existing KV image and scratch root (crash reboot).
func worldOn(k Knobs, root string, kv *simdisk.SimKV) *world {
	w := &world{k: k, root: root, clock: kv.Clock, kv: kv}
	if k.ValueScale > 1 {
		kv.ValueSizeScale = k.ValueScale
	}
	simos.ResetLocks()
	simos.Install(nil)
	w.oldMaxDiff = pathdb.VerifSetMaxDiffLayers(k.MaxDiff)
	return w
}

// open runs pathdb.New on the world's disk.
func (w *world) open() {
	if err := os.MkdirAll(filepath.Join(w.root, "ancient"), 0o755); err != nil {
		simcore.Harnessf("mkdir: %v", err)
	}
	w.disk = &simDB{Database: rawdb.NewDatabase(&gatedKV{SimKV: w.kv, w: w}), ancient: filepath.Join(w.root, "ancient")}
	w.db = pathdb.New(w.disk, w.k.config(w.root), false)
}

func (w *world) setSched(s *simsched.Sched, reads, writes, iter bool) {
	w.sched = s
	w.gated = reads || writes
	// iterator gates stay with the SimKV (their labels are canonical)
	w.kv.Sched = s
	w.kv.GateReads, w.kv.GateWrites, w.kv.GateIter = false, false, iter
}

// closeDB closes the database (waits for the flusher, closes the freezers).
func (w *world) closeDB() error {
	if w.db == nil {
		return nil
	}
	err := w.db.Close()
	w.db = nil
	return err
}

func (w *world) destroy() {
	if w.db != nil {
		w.db.Close()
		w.db = nil
	}
	simos.Install(nil)
	pathdb.VerifSetMaxDiffLayers(w.oldMaxDiff)
	os.RemoveAll(w.root)
}

// ---- log.Crit -> panic

type critPanic struct{ msg string }

type critHandler struct{}

func (critHandler) Enabled(_ context.Context, l slog.Level) bool { return l >= log.LevelCrit }
func (critHandler) Handle(_ context.Context, r slog.Record) error {
	if r.Level >= log.LevelCrit {
		var sb strings.Builder
		sb.WriteString(r.Message)
		r.Attrs(func(a slog.Attr) bool {
			sb.WriteString(" " + a.Key + "=" + fmt.Sprint(a.Value.Any()))
			return true
		})
		fmt.Println("CRIT-LOG " + sb.String())
		panic(critPanic{sb.String()})
	}
	return nil
}
func (h critHandler) WithAttrs([]slog.Attr) slog.Handler { return h }
func (h critHandler) WithGroup(string) slog.Handler      { return h }

var prologueOnce sync.Once

// prologue does the process-wide set-up (outside any bubble).
func prologue() {
	prologueOnce.Do(func() {
		log.SetDefault(log.NewLogger(critHandler{}))
		simsched.Prologue()
		// A goroutine that triggers or waits for a GC cycle parks in plain
		// "semacquire", which the lock-aware quiescence detection takes for a
		// lock wait: the world would be declared quiescent while that goroutine is
		// about to continue (measured: most C22 seeds diverged between GOMAXPROCS
		// values). The collector therefore runs between runs only (runPlan).
		debug.SetGCPercent(-1)
		// crash enumeration reopens freezers thousands of times per process
		var lim syscall.Rlimit
		if syscall.Getrlimit(syscall.RLIMIT_NOFILE, &lim) == nil && lim.Cur < lim.Max {
			lim.Cur = lim.Max
			syscall.Setrlimit(syscall.RLIMIT_NOFILE, &lim)
		}
	})
}

// guard runs f and converts a panic of the tree under test into a violation.
func guard(oracle string, f func()) (v *simcore.Violation) {
	defer func() {
		if r := recover(); r != nil {
			if hp, ok := r.(simcore.HarnessPanic); ok {
				panic(hp)
			}
			if cp, ok := r.(critPanic); ok {
				v = &simcore.Violation{Oracle: oracle + "-crit", Key: oracle + "-crit:" + classify(cp.msg), Msg: "log.Crit (process exit) in the tree under test: " + cp.msg}
				return
			}
			st := string(debug.Stack())
			v = &simcore.Violation{Oracle: oracle + "-panic", Key: oracle + "-panic:" + classify(fmt.Sprint(r)), Msg: fmt.Sprintf("panic in the tree under test: %v\n%s", r, trimStack(st))}
		}
	}()
	f()
	return nil
}

func trimStack(s string) string {
	lines := strings.Split(s, "\n")
	if len(lines) > 36 {
		lines = lines[:36]
	}
	return strings.Join(lines, "\n")
}

// classify strips numbers and hex from a message so that it can serve as a stable key.
func classify(s string) string {
	var sb strings.Builder
	lastHash := false
	for _, c := range s {
		isDigit := (c >= '0' && c <= '9') || (c >= 'a' && c <= 'f' && lastHash)
		if isDigit {
			if !lastHash {
				sb.WriteByte('N')
			}
			lastHash = true
			continue
		}
		lastHash = false
		sb.WriteRune(c)
	}
	out := sb.String()
	if len(out) > 70 {
		out = out[:70]
	}
	return out
}
