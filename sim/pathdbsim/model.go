// Package pathdbsim checks the path database (triedb/pathdb): layered reads
// (C16), rollback (C17), historical reads (C18), crash recovery (C20) and the
// flat-state iterators (C22). All checks share one world builder (world.go): a
// real pathdb.Database on a simulated key-value store plus real state-history
// freezers on recorded files, and one reference model (this file): per state
// root the full flat state and its parent, the specification trie of that state
// (refmpt) and the layer tree / canonical history the documented flattening
// policy produces.
package pathdbsim

import (
	"bytes"
	"encoding/binary"
	"fmt"
	"sort"

	"github.com/ethereum/go-ethereum/common"
	"github.com/ethereum/go-ethereum/core/types"
	"github.com/ethereum/go-ethereum/crypto"
	"github.com/ethereum/go-ethereum/rlp"
	"github.com/ethereum/go-ethereum/trie/trienode"
	"github.com/ethereum/go-ethereum/triedb/pathdb"
	"github.com/holiman/uint256"

	"verifsim/refmpt"
)

const (
	maxAccounts = 12
	maxSlots    = 6
)

// fixed universe of addresses and storage keys
var (
	uniAddr     [maxAccounts]common.Address
	uniAddrHash [maxAccounts]common.Hash
	uniKey      [maxSlots]common.Hash // raw storage keys
	uniKeyHash  [maxSlots]common.Hash
	// account indices sorted by address hash, slot indices sorted by key hash
	acctOrder []int
	slotOrder []int
)

func init() {
	for i := range uniAddr {
		h := crypto.Keccak256([]byte(fmt.Sprintf("pathdbsim-account-%d", i)))
		copy(uniAddr[i][:], h[:20])
		uniAddrHash[i] = crypto.Keccak256Hash(uniAddr[i][:])
		acctOrder = append(acctOrder, i)
	}
	for j := range uniKey {
		uniKey[j] = crypto.Keccak256Hash([]byte(fmt.Sprintf("pathdbsim-slot-%d", j)))
		uniKeyHash[j] = crypto.Keccak256Hash(uniKey[j][:])
		slotOrder = append(slotOrder, j)
	}
	sort.Slice(acctOrder, func(a, b int) bool {
		return bytes.Compare(uniAddrHash[acctOrder[a]][:], uniAddrHash[acctOrder[b]][:]) < 0
	})
	sort.Slice(slotOrder, func(a, b int) bool {
		return bytes.Compare(uniKeyHash[slotOrder[a]][:], uniKeyHash[slotOrder[b]][:]) < 0
	})
}

// acct is one account of the reference state. Values carry the salt of the
// transition that wrote them, so a value read at the wrong state is attributable.
type acct struct {
	Nonce uint64
	Bal   uint64
	Slots [maxSlots]uint64 // 0 = absent
}

// content is the full flat state: nil = account does not exist.
type content [maxAccounts]*acct

func (c *content) clone() *content {
	var n content
	for i, a := range c {
		if a != nil {
			cp := *a
			n[i] = &cp
		}
	}
	return &n
}

// state is one state the model knows (keyed by root).
type state struct {
	idx    int // creation order
	root   common.Hash
	c      *content
	slim   [maxAccounts][]byte      // slim account RLP, nil = absent
	full   [maxAccounts][]byte      // consensus account RLP (trie value)
	stRoot [maxAccounts]common.Hash // storage roots
	slot   [maxAccounts][maxSlots][]byte
	nodes  map[common.Hash]map[string][]byte // owner -> path -> blob of stored (non-embedded) nodes
}

func slotValue(v uint64) []byte {
	if v == 0 {
		return nil
	}
	var b [8]byte
	binary.BigEndian.PutUint64(b[:], v)
	enc, _ := rlp.EncodeToBytes(common.TrimLeftZeroes(b[:]))
	return enc
}

func nodeMap(ns []refmpt.Node) map[string][]byte {
	if len(ns) == 0 {
		return nil
	}
	m := make(map[string][]byte, len(ns))
	for _, n := range ns {
		if n.Embedded {
			continue
		}
		m[string(n.Path)] = n.RLP
	}
	return m
}

// newState derives everything observable from the content, with the
// specification trie (refmpt) only.
func newState(idx int, c *content) *state {
	s := &state{idx: idx, c: c, nodes: map[common.Hash]map[string][]byte{}}
	var akv []refmpt.KV
	for i, a := range c {
		if a == nil {
			continue
		}
		var skv []refmpt.KV
		for j, v := range a.Slots {
			if v != 0 {
				s.slot[i][j] = slotValue(v)
				skv = append(skv, refmpt.KV{K: uniKeyHash[j][:], V: s.slot[i][j]})
			}
		}
		sroot, snodes := refmpt.Nodes(skv)
		s.stRoot[i] = common.BytesToHash(sroot)
		if nm := nodeMap(snodes); len(nm) > 0 {
			s.nodes[uniAddrHash[i]] = nm
		}
		sa := types.StateAccount{Nonce: a.Nonce, Balance: uint256.NewInt(a.Bal), Root: s.stRoot[i], CodeHash: types.EmptyCodeHash[:]}
		s.slim[i] = types.SlimAccountRLP(sa)
		full, err := rlp.EncodeToBytes(&sa)
		if err != nil {
			panic(err)
		}
		s.full[i] = full
		akv = append(akv, refmpt.KV{K: uniAddrHash[i][:], V: full})
	}
	root, anodes := refmpt.Nodes(akv)
	s.root = common.BytesToHash(root)
	if nm := nodeMap(anodes); len(nm) > 0 {
		s.nodes[common.Hash{}] = nm
	}
	return s
}

// transition builds the arguments of Database.Update for parent -> child from the
// two full states (net difference, as a block's state commit produces it).
func transition(p, c *state, rawKeys bool, withOrigins bool) (*trienode.MergedNodeSet, *pathdb.StateSetWithOrigin) {
	accounts := map[common.Hash][]byte{}
	storages := map[common.Hash]map[common.Hash][]byte{}
	accountOrigin := map[common.Address][]byte{}
	storageOrigin := map[common.Address]map[common.Hash][]byte{}
	for i := 0; i < maxAccounts; i++ {
		if !bytes.Equal(p.slim[i], c.slim[i]) {
			accounts[uniAddrHash[i]] = c.slim[i]
			accountOrigin[uniAddr[i]] = p.slim[i]
		}
		for j := 0; j < maxSlots; j++ {
			if bytes.Equal(p.slot[i][j], c.slot[i][j]) {
				continue
			}
			if storages[uniAddrHash[i]] == nil {
				storages[uniAddrHash[i]] = map[common.Hash][]byte{}
				storageOrigin[uniAddr[i]] = map[common.Hash][]byte{}
			}
			storages[uniAddrHash[i]][uniKeyHash[j]] = c.slot[i][j]
			if rawKeys {
				storageOrigin[uniAddr[i]][uniKey[j]] = p.slot[i][j]
			} else {
				storageOrigin[uniAddr[i]][uniKeyHash[j]] = p.slot[i][j]
			}
		}
	}
	merged := trienode.NewMergedNodeSet()
	owners := map[common.Hash]bool{}
	for o := range p.nodes {
		owners[o] = true
	}
	for o := range c.nodes {
		owners[o] = true
	}
	ol := make([]common.Hash, 0, len(owners))
	for o := range owners {
		ol = append(ol, o)
	}
	sort.Slice(ol, func(a, b int) bool { return bytes.Compare(ol[a][:], ol[b][:]) < 0 })
	for _, o := range ol {
		set := trienode.NewNodeSet(o)
		n := 0
		for path, blob := range c.nodes[o] {
			prev := p.nodes[o][path]
			if bytes.Equal(prev, blob) {
				continue
			}
			set.AddNode([]byte(path), trienode.NewNodeWithPrev(crypto.Keccak256Hash(blob), blob, prev))
			n++
		}
		for path, prev := range p.nodes[o] {
			if _, ok := c.nodes[o][path]; !ok {
				set.AddNode([]byte(path), trienode.NewDeletedWithPrev(prev))
				n++
			}
		}
		if n > 0 {
			merged.Merge(set)
		}
	}
	return merged, pathdb.NewStateSetWithOrigin(accounts, storages, accountOrigin, storageOrigin, rawKeys)
}

// ---- layer tree and canonical history

type lay struct {
	root, parent common.Hash
	id           uint64
	disk         bool
	// orphan: the layer hangs (directly or through its ancestors) off a layer that
	// was flattened into the disk layer while it was not on the capped path. The
	// tree under test keeps such a layer in the tree but leaves its parent pointer
	// on the stale pre-flatten objects (finding "stale-parent-link").
	orphan bool
}

type canonEntry struct {
	root common.Hash
}

// model is the reference for one database incarnation chain.
type model struct {
	states map[common.Hash]*state // every state ever produced
	order  []*state               // creation order
	layers map[common.Hash]*lay   // live layer tree
	base   common.Hash
	// canon[id] = root of the flattened (disk) chain at that state id; grows at
	// every flatten, is cut back by Recover.
	canon []canonEntry
	// dropEpoch counts tree changes (used by readers to decide whether a root was
	// live for a whole interval)
	epoch     uint64
	capOrphan bool
	// liveSince / deadAt per root in epochs
	maxDiff int
}

func newModel(maxDiff int) *model {
	m := &model{states: map[common.Hash]*state{}, layers: map[common.Hash]*lay{}, maxDiff: maxDiff}
	g := newState(0, &content{})
	if g.root != types.EmptyRootHash {
		panic("refmpt empty root mismatch")
	}
	m.states[g.root] = g
	m.order = append(m.order, g)
	m.layers[g.root] = &lay{root: g.root, parent: g.root, disk: true}
	m.base = g.root
	m.canon = []canonEntry{{g.root}}
	return m
}

func (m *model) addState(c *content) *state {
	s := newState(len(m.order), c)
	if old, ok := m.states[s.root]; ok {
		return old
	}
	m.states[s.root] = s
	m.order = append(m.order, s)
	return s
}

func (m *model) live(root common.Hash) bool { return m.layers[root] != nil }

// liveRoots returns the live roots in creation order of their states.
func (m *model) liveRoots() []common.Hash {
	var out []common.Hash
	for _, s := range m.order {
		if m.layers[s.root] != nil {
			out = append(out, s.root)
		}
	}
	return out
}

func (m *model) diskID() uint64 { return m.layers[m.base].id }

// updateOutcome is what Database.Update must do according to the documented policy.
type updateOutcome int

const (
	updAdded   updateOutcome = iota // new layer linked (and possibly flattening below)
	updSkipped                      // a layer with this root exists: nothing changes
	updReject                       // must return an error and change nothing
)

// update mirrors Database.Update: add + cap(maxDiffLayers). It returns the
// expected outcome and the roots flattened into the disk layer (in order).
func (m *model) update(root, parent common.Hash) (updateOutcome, []common.Hash) {
	if root == parent {
		return updReject, nil
	}
	if l := m.layers[root]; l != nil {
		if l.disk {
			// tree.add skips, cap() then refuses a disk layer: error, no change
			return updReject, nil
		}
		return updSkipped, m.cap(root, m.maxDiff)
	}
	p := m.layers[parent]
	if p == nil {
		return updReject, nil
	}
	m.layers[root] = &lay{root: root, parent: parent, id: p.id + 1, orphan: p.orphan}
	m.epoch++
	return updAdded, m.cap(root, m.maxDiff)
}

// cap mirrors layerTree.cap. Returns the roots flattened into disk, bottom first.
// m.capOrphan reports whether the flattened chain contained an orphan-linked
// layer (the tree under test cannot flatten those: finding "stale-parent-link").
func (m *model) cap(root common.Hash, layers int) []common.Hash {
	m.capOrphan = false
	l := m.layers[root]
	if l == nil || l.disk {
		return nil
	}
	var newBase, onPath *lay
	if layers == 0 {
		newBase = l
	} else {
		diff := l
		for i := 0; i < layers-1; i++ {
			p := m.layers[diff.parent]
			if p.disk {
				return nil
			}
			diff = p
		}
		p := m.layers[diff.parent]
		if p.disk {
			return nil
		}
		newBase, onPath = p, diff
	}
	// chain from the old base (exclusive) up to newBase (inclusive)
	var chain []*lay
	for c := newBase; !c.disk; c = m.layers[c.parent] {
		chain = append(chain, c)
		if c.orphan {
			m.capOrphan = true
		}
	}
	var flat []common.Hash
	for i := len(chain) - 1; i >= 0; i-- {
		c := chain[i]
		if uint64(len(m.canon)) != c.id {
			panic(fmt.Sprintf("model: flatten id %d onto canon length %d", c.id, len(m.canon)))
		}
		m.canon = append(m.canon, canonEntry{c.root})
		flat = append(flat, c.root)
	}
	keep := map[common.Hash]*lay{}
	if layers == 0 {
		// a full commit resets the tree to the single new disk layer
		keep[newBase.root] = newBase
	} else {
		// keep newBase and its descendants; those not below the capped path's child
		// keep pointing at the pre-flatten objects
		for r, x := range m.layers {
			under := false
			for c := x; ; c = m.layers[c.parent] {
				if c == onPath {
					under = true
				}
				if c == newBase {
					keep[r] = x
					if !under && x != newBase {
						x.orphan = true
					}
					break
				}
				if c.disk {
					break
				}
			}
		}
	}
	newBase.disk = true
	newBase.orphan = false
	newBase.parent = newBase.root
	m.layers = keep
	m.base = newBase.root
	m.epoch++
	return flat
}

// recoverTo mirrors a successful Database.Recover(root) to canonical id k.
func (m *model) recoverTo(k uint64) {
	root := m.canon[k].root
	m.canon = m.canon[:k+1]
	m.layers = map[common.Hash]*lay{root: {root: root, parent: root, id: k, disk: true}}
	m.base = root
	m.epoch++
}

// canonicalID returns the id of root on the flattened chain (unique by construction).
func (m *model) canonicalID(root common.Hash) (uint64, bool) {
	for i := len(m.canon) - 1; i >= 0; i-- {
		if m.canon[i].root == root {
			return uint64(i), true
		}
	}
	return 0, false
}

// resetToDisk mirrors a reopen that found no usable journal: only the disk layer at id/root remains.
func (m *model) resetTo(root common.Hash, id uint64, keepLayers map[common.Hash]*lay) {
	m.layers = keepLayers
	m.base = root
	m.epoch++
}

// ---- expectations

func (s *state) account(i int) []byte { return s.slim[i] }

func (s *state) storage(i, j int) []byte { return s.slot[i][j] }

// sortedAccounts returns (hash, slim) of existing accounts with hash >= seek, ascending.
func (s *state) sortedAccounts(seek common.Hash) (hs []common.Hash, vs [][]byte) {
	for _, i := range acctOrder {
		if s.slim[i] == nil || bytes.Compare(uniAddrHash[i][:], seek[:]) < 0 {
			continue
		}
		hs = append(hs, uniAddrHash[i])
		vs = append(vs, s.slim[i])
	}
	return
}

func (s *state) sortedSlots(i int, seek common.Hash) (hs []common.Hash, vs [][]byte) {
	for _, j := range slotOrder {
		if s.slot[i][j] == nil || bytes.Compare(uniKeyHash[j][:], seek[:]) < 0 {
			continue
		}
		hs = append(hs, uniKeyHash[j])
		vs = append(vs, s.slot[i][j])
	}
	return
}

// nodeList returns the stored nodes of the state in (owner, path) order.
type nodeRef struct {
	owner common.Hash
	path  string
	blob  []byte
}

func (s *state) nodeList() []nodeRef {
	var out []nodeRef
	for o, m := range s.nodes {
		for p, b := range m {
			out = append(out, nodeRef{o, p, b})
		}
	}
	sort.Slice(out, func(a, b int) bool {
		if out[a].owner != out[b].owner {
			return bytes.Compare(out[a].owner[:], out[b].owner[:]) < 0
		}
		return out[a].path < out[b].path
	})
	return out
}

// describe a value for messages: which state(s) of the model hold exactly this value for the key.
func (m *model) whoHasAccount(i int, blob []byte) string {
	for _, s := range m.order {
		if bytes.Equal(s.slim[i], blob) && len(blob) > 0 {
			return fmt.Sprintf("state #%d %x", s.idx, s.root[:4])
		}
	}
	return "no state of the model"
}

func (m *model) whoHasSlot(i, j int, blob []byte) string {
	for _, s := range m.order {
		if bytes.Equal(s.slot[i][j], blob) && len(blob) > 0 {
			return fmt.Sprintf("state #%d %x", s.idx, s.root[:4])
		}
	}
	return "no state of the model"
}
