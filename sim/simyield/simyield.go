// Package simyield is the cooperative yield hook that tools/yieldrewrite inserts into selected
// geth files (before Lock/RLock, after Unlock/RUnlock, before channel sends and receives). With
// no hook installed a yield point is an atomic load. It imports the standard library only.
package simyield

import "sync/atomic"

var hook atomic.Pointer[func(label string)]

// Set installs (or, with nil, removes) the process-wide hook.
func Set(f func(label string)) {
	if f == nil {
		hook.Store(nil)
		return
	}
	hook.Store(&f)
}

// Point is a yield point.
func Point(label string) {
	if h := hook.Load(); h != nil {
		(*h)(label)
	}
}
