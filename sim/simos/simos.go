// Package simos is the file-system seam the verification overlay puts under
// geth's own file formats (freezer tables, pathdb journal file). The files of
// core/rawdb/freezer*.go and triedb/pathdb/journal.go are recompiled with every
// os.* file-system call redirected here (tools/osrewrite), nothing else changed.
//
// simos passes every call through to the real file system (a tmpfs directory)
// and, when a Recorder is installed, records every mutation with a global
// sequence number: that record is what crash states are materialised from.
// It can also inject I/O errors. It imports the standard library only.
package simos

import (
	"errors"
	"io"
	"io/fs"
	"os"
	"path/filepath"
	"sync"
	"syscall"
)

type Kind uint8

const (
	EvCreate Kind = iota + 1
	EvWrite
	EvTruncate
	EvSync
	EvRemove
	EvRename
	EvMkdir
	EvSyncDir
	EvRemoveAll
)

func (k Kind) String() string {
	return [...]string{"?", "create", "write", "truncate", "sync", "remove", "rename", "mkdir", "syncdir", "removeall"}[k]
}

// Event is one recorded file-system mutation (or durability barrier).
type Event struct {
	Seq  uint64
	Kind Kind
	Path string
	To   string // rename target
	Off  int64  // write offset / truncate size
	Data []byte // written bytes (copy)
}

// Fault describes an injected I/O error: the N-th (1-based) operation of the
// given class fails. Class: "write" (short write then ENOSPC), "sync" (EIO),
// "writeio" (EIO without writing).
type Fault struct {
	Class string
	N     int
}

// Recorder collects events. Only paths under Root are recorded.
type Recorder struct {
	mu      sync.Mutex
	Root    string
	Events  []Event
	NextSeq func() uint64
	seq     uint64
	faults  []Fault
	counts  map[string]int
	Fired   map[string]int
	// Hook, if set, is called (without the lock) after each recorded event.
	Hook func(ev *Event)
}

var (
	gmu sync.RWMutex
	rec *Recorder
)

// Install makes r the process-wide recorder (nil = pure pass-through).
func Install(r *Recorder) {
	gmu.Lock()
	rec = r
	gmu.Unlock()
}

func NewRecorder(root string) *Recorder {
	return &Recorder{Root: filepath.Clean(root), counts: map[string]int{}, Fired: map[string]int{}}
}

func (r *Recorder) SetFaults(f []Fault) {
	r.mu.Lock()
	r.faults = append([]Fault{}, f...)
	r.counts = map[string]int{}
	r.mu.Unlock()
}

func current(path string) *Recorder {
	gmu.RLock()
	r := rec
	gmu.RUnlock()
	if r == nil {
		return nil
	}
	p := filepath.Clean(path)
	if len(p) >= len(r.Root) && p[:len(r.Root)] == r.Root && (len(p) == len(r.Root) || p[len(r.Root)] == '/') {
		return r
	}
	return nil
}

func (r *Recorder) add(ev Event) {
	r.mu.Lock()
	if r.NextSeq != nil {
		ev.Seq = r.NextSeq()
	} else {
		r.seq++
		ev.Seq = r.seq
	}
	r.Events = append(r.Events, ev)
	h := r.Hook
	e := &r.Events[len(r.Events)-1]
	r.mu.Unlock()
	if h != nil {
		h(e)
	}
}

// Len returns the number of recorded events.
func (r *Recorder) Len() int {
	r.mu.Lock()
	defer r.mu.Unlock()
	return len(r.Events)
}

// fault reports whether the next operation of class fails.
func (r *Recorder) fault(class string) bool {
	r.mu.Lock()
	defer r.mu.Unlock()
	if len(r.faults) == 0 {
		return false
	}
	r.counts[class]++
	for _, f := range r.faults {
		if f.Class == class && f.N == r.counts[class] {
			r.Fired[class]++
			return true
		}
	}
	return false
}

// File mirrors the subset of *os.File geth's file formats use.
type File struct {
	f     *os.File
	path  string
	isDir bool
}

func wrap(f *os.File, path string) *File {
	fl := &File{f: f, path: filepath.Clean(path)}
	if st, err := f.Stat(); err == nil && st.IsDir() {
		fl.isDir = true
	}
	return fl
}

func OpenFile(name string, flag int, perm os.FileMode) (*File, error) {
	r := current(name)
	existed := true
	var oldSize int64
	if r != nil {
		st, err := os.Lstat(name)
		if err != nil {
			existed = false
		} else {
			oldSize = st.Size()
		}
	}
	f, err := os.OpenFile(name, flag, perm)
	if err != nil {
		return nil, err
	}
	if r != nil {
		if !existed && flag&os.O_CREATE != 0 {
			r.add(Event{Kind: EvCreate, Path: filepath.Clean(name)})
		} else if existed && flag&os.O_TRUNC != 0 && oldSize != 0 {
			r.add(Event{Kind: EvTruncate, Path: filepath.Clean(name), Off: 0})
		}
	}
	return wrap(f, name), nil
}

func Open(name string) (*File, error) { return OpenFile(name, os.O_RDONLY, 0) }

func CreateTemp(dir, pattern string) (*File, error) {
	// deterministic temp names: the caller only needs uniqueness within dir
	r := current(dir)
	if r == nil {
		f, err := os.CreateTemp(dir, pattern)
		if err != nil {
			return nil, err
		}
		return wrap(f, f.Name()), nil
	}
	for i := 0; ; i++ {
		name := filepath.Join(dir, "simos-tmp-"+itoa(i))
		f, err := os.OpenFile(name, os.O_RDWR|os.O_CREATE|os.O_EXCL, 0600)
		if errors.Is(err, fs.ErrExist) {
			continue
		}
		if err != nil {
			return nil, err
		}
		r.add(Event{Kind: EvCreate, Path: filepath.Clean(name)})
		return wrap(f, name), nil
	}
}

func itoa(i int) string {
	if i == 0 {
		return "0"
	}
	var b []byte
	for i > 0 {
		b = append([]byte{byte('0' + i%10)}, b...)
		i /= 10
	}
	return string(b)
}

func Remove(name string) error {
	r := current(name)
	err := os.Remove(name)
	if err == nil && r != nil {
		r.add(Event{Kind: EvRemove, Path: filepath.Clean(name)})
	}
	return err
}

func RemoveAll(name string) error {
	r := current(name)
	_, statErr := os.Lstat(name)
	err := os.RemoveAll(name)
	if err == nil && r != nil && statErr == nil {
		r.add(Event{Kind: EvRemoveAll, Path: filepath.Clean(name)})
	}
	return err
}

func Rename(oldpath, newpath string) error {
	r := current(oldpath)
	err := os.Rename(oldpath, newpath)
	if err == nil && r != nil {
		r.add(Event{Kind: EvRename, Path: filepath.Clean(oldpath), To: filepath.Clean(newpath)})
	}
	return err
}

func MkdirAll(path string, perm os.FileMode) error {
	r := current(path)
	_, statErr := os.Lstat(path)
	err := os.MkdirAll(path, perm)
	if err == nil && r != nil && statErr != nil {
		r.add(Event{Kind: EvMkdir, Path: filepath.Clean(path)})
	}
	return err
}

func (f *File) Name() string               { return f.f.Name() }
func (f *File) Stat() (os.FileInfo, error) { return f.f.Stat() }
func (f *File) Read(b []byte) (int, error) { return f.f.Read(b) }
func (f *File) Fd() uintptr                { return f.f.Fd() }
func (f *File) Readdirnames(n int) ([]string, error) {
	return f.f.Readdirnames(n)
}
func (f *File) ReadDir(n int) ([]os.DirEntry, error) { return f.f.ReadDir(n) }
func (f *File) ReadAt(b []byte, off int64) (int, error) {
	return f.f.ReadAt(b, off)
}
func (f *File) Seek(offset int64, whence int) (int64, error) { return f.f.Seek(offset, whence) }
func (f *File) Close() error                                 { return f.f.Close() }

var errNoSpace = &os.PathError{Op: "write", Path: "simos", Err: syscall.ENOSPC}
var errIO = &os.PathError{Op: "sync", Path: "simos", Err: syscall.EIO}

func (f *File) Write(b []byte) (int, error) {
	r := current(f.path)
	if r == nil {
		return f.f.Write(b)
	}
	off, err := f.f.Seek(0, io.SeekCurrent)
	if err != nil {
		return 0, err
	}
	if r.fault("writeio") {
		return 0, &os.PathError{Op: "write", Path: f.path, Err: syscall.EIO}
	}
	if r.fault("write") {
		// short write, then "no space left on device"
		n := len(b) / 2
		if n > 0 {
			n, _ = f.f.Write(b[:n])
			if n > 0 {
				r.add(Event{Kind: EvWrite, Path: f.path, Off: off, Data: append([]byte{}, b[:n]...)})
			}
		}
		return n, errNoSpace
	}
	n, err := f.f.Write(b)
	if n > 0 {
		r.add(Event{Kind: EvWrite, Path: f.path, Off: off, Data: append([]byte{}, b[:n]...)})
	}
	return n, err
}

func (f *File) WriteAt(b []byte, off int64) (int, error) {
	r := current(f.path)
	if r == nil {
		return f.f.WriteAt(b, off)
	}
	if r.fault("writeio") {
		return 0, &os.PathError{Op: "write", Path: f.path, Err: syscall.EIO}
	}
	if r.fault("write") {
		n := len(b) / 2
		if n > 0 {
			n, _ = f.f.WriteAt(b[:n], off)
			if n > 0 {
				r.add(Event{Kind: EvWrite, Path: f.path, Off: off, Data: append([]byte{}, b[:n]...)})
			}
		}
		return n, errNoSpace
	}
	n, err := f.f.WriteAt(b, off)
	if n > 0 {
		r.add(Event{Kind: EvWrite, Path: f.path, Off: off, Data: append([]byte{}, b[:n]...)})
	}
	return n, err
}

func (f *File) WriteString(s string) (int, error) { return f.Write([]byte(s)) }

func (f *File) Truncate(size int64) error {
	r := current(f.path)
	err := f.f.Truncate(size)
	if err == nil && r != nil {
		r.add(Event{Kind: EvTruncate, Path: f.path, Off: size})
	}
	return err
}

// Sync records a durability barrier for the file (or directory). The real
// fsync is skipped: durability is modelled, not measured.
func (f *File) Sync() error {
	r := current(f.path)
	if r == nil {
		return nil
	}
	if r.fault("sync") {
		return errIO
	}
	if f.isDir {
		r.add(Event{Kind: EvSyncDir, Path: f.path})
	} else {
		r.add(Event{Kind: EvSync, Path: f.path})
	}
	return nil
}

// Flock replaces github.com/gofrs/flock in the rewritten freezer: an
// in-process lock table keyed by path.
type Flock struct {
	path   string
	locked bool
}

var (
	lockMu sync.Mutex
	locks  = map[string]bool{}
)

func NewFlock(path string) *Flock { return &Flock{path: filepath.Clean(path)} }

func (l *Flock) TryLock() (bool, error) {
	lockMu.Lock()
	defer lockMu.Unlock()
	if locks[l.path] {
		return false, nil
	}
	locks[l.path] = true
	l.locked = true
	return true, nil
}

func (l *Flock) TryRLock() (bool, error) { return l.TryLock() }

func (l *Flock) Unlock() error {
	lockMu.Lock()
	defer lockMu.Unlock()
	if l.locked {
		delete(locks, l.path)
		l.locked = false
	}
	return nil
}

// ResetLocks drops every in-process lock (a crashed process holds none).
func ResetLocks() {
	lockMu.Lock()
	locks = map[string]bool{}
	lockMu.Unlock()
}
