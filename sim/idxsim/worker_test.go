package idxsim

import (
	"encoding/json"
	"fmt"
	"os"
	"strconv"
	"testing"

	"verifsim/simcore"
)

func TestWorker(t *testing.T) { simcore.RunWorker(t, Checks()) }

// TestRunSeed regenerates and executes the plan of one run seed (development aid):
// IDXSIM_RUNSEED=<run_seed> [VERIF_TIER=quick] idxsim.test -test.run TestRunSeed
func TestRunSeed(t *testing.T) {
	s := os.Getenv("IDXSIM_RUNSEED")
	if s == "" {
		t.Skip("IDXSIM_RUNSEED not set")
	}
	seed, err := strconv.ParseUint(s, 10, 64)
	if err != nil {
		t.Fatal(err)
	}
	tier := os.Getenv("VERIF_TIER")
	if tier == "" {
		tier = "quick"
	}
	c := Checks()["C19"]
	plan := c.Gen(simcore.NewRand(seed), tier)
	b, _ := json.Marshal(plan)
	fmt.Printf("PLAN %s\n", b)
	res := simcore.SafeRun(t, c, plan)
	if res.Violation != nil {
		fmt.Printf("VIOLATION %s %s\n%s\n", res.Violation.Oracle, res.Violation.Key, res.Violation.Msg)
	} else {
		fmt.Printf("HELD loghash %x\n", res.LogHash)
	}
}
