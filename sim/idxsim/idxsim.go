// Package idxsim checks property C19: the history index of triedb/pathdb
// (indexWriter / indexDeleter / indexReader / blockWriter / iterators / pruner)
// behaves as a sorted set of state ids. The real unexported structures are
// reached through the overlay accessor triedb/pathdb/verif_idxsim.go and persist
// into a simdisk.SimKV; after every step the writer and the reader are rebuilt
// from the stored bytes. The oracle is a sorted slice.
package idxsim

import (
	"bytes"
	"encoding/binary"
	"encoding/json"
	"fmt"
	"math"
	"os"
	"runtime/debug"
	"sort"
	"strings"
	"testing"
	"time"

	"github.com/ethereum/go-ethereum/common"
	"github.com/ethereum/go-ethereum/ethdb"
	"github.com/ethereum/go-ethereum/ethdb/memorydb"
	"github.com/ethereum/go-ethereum/triedb/pathdb"

	"verifsim/simcore"
	"verifsim/simdisk"
)

// ---------------------------------------------------------------- plan

// Ident is one indexed element. T: 0 account, 1 storage slot, 2 trie node.
// O == 0 with T == 2 means the account trie (zero owner).
type Ident struct {
	T int    `json:"t"`
	O uint8  `json:"o"`
	S uint8  `json:"s,omitempty"`
	P []byte `json:"p,omitempty"` // trie node chunk path (nibbles)
}

func (id Ident) v() pathdb.VerifIdxIdent {
	var o, s common.Hash
	if id.O != 0 {
		o[0], o[31] = 0xa0, id.O
	}
	if id.T == 1 {
		s[0], s[31] = 0xb0, id.S
	}
	return pathdb.VerifIdxIdent{Typ: id.T, Owner: o, Slot: s, Path: string(id.P)}
}

// Op is one step of the history.
//
//	app   append ids (ascending). U=="" : N elements; U=="sec": until the live
//	      block is A%3+1 elements short of a restart-section boundary; U=="blk":
//	      until the live block is within A%48 bytes of being reported full.
//	pop   pop N newest ids through the deleter
//	prune run the index pruner with a tail chosen by M/A (see pruneTail)
//	trim  open the writer with a limit chosen by M/A (recovery path: elements
//	      above the limit are dropped), then append N>=1 ids
//	dtrim open the deleter with limit = an existing id, then pop N>=1 ids
//
// C is the reopen cadence inside the op (0: the writer/deleter lives for the
// whole op; k: flush, check and rebuild from the stored bytes every k elements);
// B additionally forces a rebuild at every element next to a restart-section or
// block boundary. G/E select the gap and extension-size classes. S seeds the ids.
type Op struct {
	K string `json:"k"`
	I int    `json:"i"`
	N int    `json:"n,omitempty"`
	U string `json:"u,omitempty"`
	G int    `json:"g,omitempty"`
	E int    `json:"e,omitempty"`
	C int    `json:"c,omitempty"`
	B bool   `json:"b,omitempty"`
	M int    `json:"m,omitempty"`
	A uint64 `json:"a,omitempty"`
	S uint64 `json:"s,omitempty"`
}

// Corr is one corruption of a stored value (fault configuration). The value is
// corrupted, the readers are exercised, the value is restored.
type Corr struct {
	Key  uint64 `json:"key"` // index into the sorted list of stored index keys
	Kind string `json:"kind"`
	Off  uint64 `json:"off"`
	Len  int    `json:"len,omitempty"`
	Seed uint64 `json:"seed,omitempty"`
}

type Plan struct {
	Idents  []Ident `json:"idents"`
	Ops     []Op    `json:"ops"`
	Corrupt []Corr  `json:"corrupt,omitempty"`
	Writers bool    `json:"writers,omitempty"` // corruption rounds also exercise writer/deleter/pruner
	QSeed   uint64  `json:"qseed"`
}

var identPool = []Ident{
	{T: 0, O: 1},
	{T: 0, O: 2},
	{T: 1, O: 1, S: 1},
	{T: 1, O: 1, S: 2},
	{T: 2, O: 0, P: []byte{3}},       // account trie, level-1 chunk: 2-byte bitmap
	{T: 2, O: 0, P: []byte{3, 1, 4}}, // account trie, deeper chunk: 34-byte bitmap
	{T: 2, O: 7, P: []byte{}},        // storage trie root chunk: 34-byte bitmap
	{T: 2, O: 7, P: []byte{1, 5, 9}}, // storage trie deeper chunk: 34-byte bitmap
}

func gen(r *simcore.Rand, tier string) any {
	p := &Plan{QSeed: r.Uint64()}
	// 1-2 elements of one history type (the pruner works per history type), or a mix
	first := identPool[r.Intn(len(identPool))]
	p.Idents = append(p.Idents, first)
	if r.Bool(0.4) {
		for tries := 0; tries < 8; tries++ {
			c := identPool[r.Intn(len(identPool))]
			if !identEq(c, first) && (r.Bool(0.3) || (c.T == 2) == (first.T == 2)) {
				p.Idents = append(p.Idents, c)
				break
			}
		}
	}
	nops := r.Range(4, 18)
	if tier == "thorough" {
		nops = r.Range(4, 40)
	}
	// per run: a dominant gap class and extension class (swarm style)
	domG := r.Intn(7)
	domE := r.Pick(3, 3, 2, 1) // index into extension size classes
	cross := r.Intn(3)         // 0: aim at blocks, 1: aim at sections, 2: free
	for len(p.Ops) < nops {
		i := r.Intn(len(p.Idents))
		g, e := domG, domE
		if r.Bool(0.2) {
			g = r.Intn(7)
		}
		if r.Bool(0.2) {
			e = r.Intn(4)
		}
		op := Op{I: i, G: g, E: e, S: r.Uint64(), A: r.Uint64() >> 1}
		switch r.Pick(7, 4, 6, 3, 2, 2) {
		case 0: // move to a boundary
			op.K = "app"
			switch {
			case cross == 0 || (cross == 2 && r.Bool(0.4)):
				op.U = "blk"
			default:
				op.U = "sec"
			}
			if r.Bool(0.25) {
				op.C = r.Range(1, 64)
			}
			op.B = r.Bool(0.3)
		case 1: // bulk append
			op.K = "app"
			op.N = r.Range(1, 600)
			if r.Bool(0.3) {
				op.C = r.Range(1, 64)
			}
			op.B = r.Bool(0.3)
		case 2: // small append, rebuilt at every element
			op.K = "app"
			op.N = r.Range(1, 8)
			op.C = 1
		case 3: // pops
			op.K = "pop"
			switch r.Pick(12, 4, 1) {
			case 0:
				op.N = r.Range(1, 10)
				op.C = 1
			case 1:
				op.N = r.Range(1, 300)
				if r.Bool(0.4) {
					op.C = r.Range(1, 64)
				}
				op.B = r.Bool(0.5)
			case 2:
				op.N = 1 << 20 // everything
				op.B = r.Bool(0.5)
			}
		case 4:
			op.K = "prune"
			op.M = r.Intn(6)
		case 5:
			if r.Bool(0.5) {
				op.K = "trim"
				op.M = r.Intn(7)
				op.N = r.Range(1, 5)
			} else {
				op.K = "dtrim"
				op.N = r.Range(1, 5)
				if r.Bool(0.3) {
					op.A = uint64(r.Intn(6)) // close to the oldest element
				}
			}
			op.C = r.Intn(2)
		}
		p.Ops = append(p.Ops, op)
	}
	// fault configuration: corrupt stored bytes after the history
	if r.Bool(0.3) {
		n := r.Range(6, 24)
		p.Writers = r.Bool(0.5)
		for i := 0; i < n; i++ {
			c := Corr{Key: r.Uint64() >> 1, Kind: corrKinds[r.Intn(len(corrKinds))], Off: r.Uint64() >> 1, Len: r.Range(1, 24), Seed: r.Uint64()}
			p.Corrupt = append(p.Corrupt, c)
		}
	}
	return p
}

func identEq(a, b Ident) bool {
	return a.T == b.T && a.O == b.O && a.S == b.S && bytes.Equal(a.P, b.P)
}

func decode(b []byte) (any, error) {
	p := &Plan{}
	return p, json.Unmarshal(b, p)
}

// isKnown: recorded findings (known_findings.jsonl) are skipped and counted so that
// the exploration continues past them. IDXSIM_KNOWN (comma separated keys) is a
// development aid for running before an entry is recorded.
func isKnown(key string) bool {
	if simcore.IsKnown(key) {
		return true
	}
	for _, k := range strings.Split(os.Getenv("IDXSIM_KNOWN"), ",") {
		if k != "" && k == key {
			return true
		}
	}
	return false
}

// hangSeen is set once a guarded call did not return; shrinking is then pointless
// (every candidate would leak another spinning goroutine).
var hangSeen bool

func shrink(pl any) []any {
	if hangSeen {
		return nil
	}
	p := pl.(*Plan)
	var out []any
	mk := func(f func(q *Plan)) {
		b, _ := json.Marshal(p)
		q := &Plan{}
		json.Unmarshal(b, q)
		f(q)
		out = append(out, q)
	}
	if len(p.Corrupt) > 0 {
		for _, cs := range simcore.ShrinkSlice(p.Corrupt) {
			cs := cs
			mk(func(q *Plan) { q.Corrupt = cs })
		}
		if p.Writers {
			mk(func(q *Plan) { q.Writers = false })
		}
	}
	for _, ops := range simcore.ShrinkSlice(p.Ops) {
		ops := ops
		mk(func(q *Plan) { q.Ops = ops })
	}
	if len(p.Idents) > 1 {
		// drop the second element and the ops on it
		mk(func(q *Plan) {
			q.Idents = q.Idents[:1]
			var ops []Op
			for _, o := range q.Ops {
				if o.I == 0 {
					ops = append(ops, o)
				}
			}
			q.Ops = ops
		})
	}
	for i, op := range p.Ops {
		i, op := i, op
		if op.N > 1 && op.N < 1<<20 {
			mk(func(q *Plan) { q.Ops[i].N = op.N / 2 })
			mk(func(q *Plan) { q.Ops[i].N = op.N - 1 })
		}
		if op.C > 0 || op.B {
			mk(func(q *Plan) { q.Ops[i].C, q.Ops[i].B = 0, false })
		}
		if op.G > 0 {
			mk(func(q *Plan) { q.Ops[i].G = 0 })
		}
	}
	return out
}

// ---------------------------------------------------------------- model

type model struct {
	ids  []uint64
	exts [][]uint16
}

func (m *model) last() uint64 {
	if len(m.ids) == 0 {
		return 0
	}
	return m.ids[len(m.ids)-1]
}

// gt is the specification of readGreaterThan / SeekGT: position of the least id > q.
func (m *model) gt(q uint64) int {
	return sort.Search(len(m.ids), func(i int) bool { return m.ids[i] > q })
}

// parent of node x inside a chunk (16-ary tree numbered level by level, root 0).
func parentID(x uint16) uint16 { return (x - 1) / 16 }

// matches is the specification of the extension filter: the element matches f if
// its extension lists f itself or a descendant of f.
func matches(f uint16, ext []uint16) bool {
	for _, e := range ext {
		for {
			if e == f {
				return true
			}
			if e == 0 {
				break
			}
			e = parentID(e)
		}
	}
	return false
}

// ---------------------------------------------------------------- world

type world struct {
	p      *Plan
	kv     *simdisk.SimKV
	idents []pathdb.VerifIdxIdent
	bsize  []int
	models []*model
	res    *simcore.Result
	log    simcore.Hash64
	state  simcore.Hash64
	qr     *simcore.Rand
	steps  int
	maxBlk int
	pops   int
	prunes int
	secs   int
}

func (w *world) logf(kind string, vals ...uint64) {
	w.log = w.log.String(kind)
	for _, v := range vals {
		w.log = w.log.U64(v)
	}
}

func viol(oracle, format string, a ...any) *simcore.Violation {
	return simcore.Violf(oracle, format, a...)
}

func (w *world) flush(fin func(ethdb.Batch)) {
	b := w.kv.NewBatch()
	fin(b)
	if err := b.Write(); err != nil {
		simcore.Harnessf("batch write failed without an injected fault: %v", err)
	}
}

func extLimit(bsize int) int { return bsize * 8 } // ids 0..limit are representable

var extClasses = []int{1, 3, 8, 24}

func (w *world) genExt(r *simcore.Rand, i int, class int) []uint16 {
	bs := w.bsize[i]
	if bs == 0 {
		return nil
	}
	lim := extLimit(bs)
	n := r.Range(1, extClasses[class%len(extClasses)])
	if n > lim+1 {
		n = lim + 1
	}
	seen := map[uint16]bool{}
	var out []uint16
	for len(out) < n {
		var x uint16
		if bs > 2 && r.Bool(0.5) {
			x = uint16(r.Range(17, lim)) // third level
		} else {
			x = uint16(r.Intn(17))
		}
		if !seen[x] {
			seen[x] = true
			out = append(out, x)
		}
	}
	return out
}

func gap(r *simcore.Rand, class int, last uint64) uint64 {
	if class == 6 {
		class = r.Intn(6)
	}
	var g uint64
	switch class {
	case 0:
		g = 1
	case 1:
		g = uint64(r.Range(1, 127))
	case 2:
		g = uint64(r.Range(128, 16383))
	case 3:
		g = uint64(r.Range(1<<20, 1<<28))
	case 4:
		g = 1<<49 + r.Uint64()>>15
	default:
		g = uint64(r.Range(1, 300))
	}
	// keep far away from overflow (ids are history ids; 2^62 is out of reach anyway)
	if last > 1<<62 || g > 1<<62 {
		g = uint64(r.Range(1, 3))
	}
	return g
}

// nearBoundary: the live block is next to a restart-section or block boundary.
func nearBoundary(entries, dataLen int) bool {
	m := entries % pathdb.VerifIdxRestartLen
	return m <= 2 || m >= pathdb.VerifIdxRestartLen-2 || dataLen > pathdb.VerifIdxBlockMaxSize-96 || entries <= 2
}

func (w *world) appendLoop(opi int, op Op, limit uint64, minID uint64) *simcore.Violation {
	i := op.I
	m, id := w.models[i], w.idents[i]
	r := simcore.NewRand(op.S)
	open := func(lim uint64) (*pathdb.VerifIdxWriter, *simcore.Violation) {
		wr, err := pathdb.VerifIdxNewWriter(w.kv, id, lim)
		if err != nil {
			return nil, viol("writer-open-error", "op %d: newIndexWriter(limit %d) on the stored bytes failed: %v", opi, lim, err)
		}
		return wr, nil
	}
	wr, v := open(limit)
	if v != nil {
		return v
	}
	// (the writer's lastID is 0 when the limit emptied its live block although older blocks
	// remain — only its ordering check depends on it; behaviour is judged by the lookups)
	if wr.LastID() != m.last() && wr.LastID() != 0 {
		return viol("writer-last-id", "op %d: writer rebuilt from the stored bytes (limit %d) reports last id %d, model %d", opi, limit, wr.LastID(), m.last())
	}
	if wr.LastID() == 0 && len(m.ids) > 0 {
		w.res.Probe("limit-empties-live-block-only")
	}
	// a long-lived reader that follows the appends through refresh() (as the history
	// reader does while indexing progresses); only meaningful for pure appends
	var lr *pathdb.VerifIdxReader
	if op.K == "app" {
		if lr, v = w.reader(opi, i); v != nil {
			return v
		}
		// warm its block-reader cache
		for _, q := range []uint64{0, m.last() / 2, m.last() - 1} {
			if len(m.ids) > 0 {
				if v := w.checkGT(opi, i, lr, q); v != nil {
					return v
				}
			}
		}
	}
	refreshed := func() *simcore.Violation {
		if lr == nil {
			return nil
		}
		if err := lr.Refresh(); err != nil {
			return viol("refresh-error", "op %d: refresh() of a reader opened before the appends failed: %v", opi, err)
		}
		w.res.Probe("reader-refreshed")
		n := len(m.ids)
		qs := []uint64{0, m.last(), m.last() - 1, m.ids[w.qr.Intn(n)] - 1}
		if n > 1 {
			qs = append(qs, m.ids[n-2], m.ids[n-2]-1)
		}
		for _, q := range qs {
			if v := w.checkGT(opi, i, lr, q); v != nil {
				v.Msg = "(reader opened before the appends, then refresh()) " + v.Msg
				return v
			}
		}
		return nil
	}
	max := op.N
	switch op.U {
	case "sec":
		max = 300
	case "blk":
		max = 6000
	}
	count := 0
	for count < max {
		entries, dataLen := wr.Live()
		if op.U == "sec" && count > 0 && entries%pathdb.VerifIdxRestartLen == pathdb.VerifIdxRestartLen-1-int(op.A%3) {
			break
		}
		if op.U == "blk" && count > 0 && dataLen >= pathdb.VerifIdxBlockMaxSize-8-int(op.A%48) {
			break
		}
		base := m.last()
		if minID > base {
			base = minID
		}
		nid := base + gap(r, op.G, base)
		ext := w.genExt(r, i, op.E)
		keep := append([]uint16{}, ext...)
		if err := wr.Append(nid, ext); err != nil {
			return viol("append-error", "op %d: append(%d) after %d failed: %v", opi, nid, m.last(), err)
		}
		sort.Slice(keep, func(a, b int) bool { return keep[a] < keep[b] })
		m.ids = append(m.ids, nid)
		m.exts = append(m.exts, keep)
		count++
		e2, d2 := wr.Live()
		if e2 == 1 && entries > 0 {
			w.res.Probe("block-rotated")
		}
		if e2%pathdb.VerifIdxRestartLen == 1 && e2 > 1 {
			w.res.Probe("append-opens-restart-section")
			w.secs++
		}
		if (op.C > 0 && count%op.C == 0) || (op.B && nearBoundary(e2, d2)) {
			w.flush(wr.Finish)
			w.steps++
			if v := w.checkQuick(opi, i); v != nil {
				return v
			}
			if v := refreshed(); v != nil {
				return v
			}
			if wr, v = open(m.last() + uint64(count%2)); v != nil {
				return v
			}
			if wr.LastID() != m.last() {
				return viol("writer-last-id", "op %d: writer rebuilt from the stored bytes reports last id %d, model %d", opi, wr.LastID(), m.last())
			}
		}
	}
	w.flush(wr.Finish)
	w.steps++
	w.logf("app", uint64(opi), uint64(count), m.last())
	if count > 0 {
		return refreshed()
	}
	return nil
}

func (w *world) popLoop(opi int, op Op, limit uint64) *simcore.Violation {
	i := op.I
	m, id := w.models[i], w.idents[i]
	open := func(lim uint64) (*pathdb.VerifIdxDeleter, *simcore.Violation) {
		d, err := pathdb.VerifIdxNewDeleter(w.kv, id, lim)
		if err != nil {
			return nil, viol("deleter-open-error", "op %d: newIndexDeleter(limit %d) on the stored bytes failed: %v", opi, lim, err)
		}
		if d.LastID() != m.last() {
			return nil, viol("deleter-last-id", "op %d: deleter rebuilt from the stored bytes (limit %d) reports last id %d, model %d", opi, lim, d.LastID(), m.last())
		}
		return d, nil
	}
	d, v := open(limit)
	if v != nil {
		return v
	}
	count := 0
	for count < op.N && len(m.ids) > 0 {
		entries, _ := d.Live()
		nid := m.last()
		if err := d.Pop(nid); err != nil {
			return viol("pop-error", "op %d: pop(%d) of the newest id failed: %v", opi, nid, err)
		}
		m.ids = m.ids[:len(m.ids)-1]
		m.exts = m.exts[:len(m.exts)-1]
		count++
		w.pops++
		if entries%pathdb.VerifIdxRestartLen == 1 && entries > 1 {
			w.res.Probe("pop-closes-restart-section")
		}
		if entries == 1 {
			if len(m.ids) > 0 {
				w.res.Probe("pop-crosses-block-boundary")
			} else {
				w.res.Probe("pop-empties-index")
			}
		}
		if d.LastID() != m.last() {
			return viol("deleter-last-id", "op %d: after pop(%d) the deleter reports last id %d, model %d", opi, nid, d.LastID(), m.last())
		}
		e2, d2 := d.Live()
		if (op.C > 0 && count%op.C == 0) || (op.B && nearBoundary(e2, d2)) {
			w.flush(d.Finish)
			w.steps++
			if v := w.checkQuick(opi, i); v != nil {
				return v
			}
			if len(m.ids) == 0 {
				w.logf("pop", uint64(opi), uint64(count), 0)
				return nil
			}
			if d, v = open(m.last() + uint64(count%2)); v != nil {
				return v
			}
		}
	}
	w.flush(d.Finish)
	w.steps++
	w.logf("pop", uint64(opi), uint64(count), m.last())
	return nil
}

func (w *world) descs(opi, i int) ([]pathdb.VerifIdxDesc, *simcore.Violation) {
	ds, err := pathdb.VerifIdxDescs(w.kv, w.idents[i])
	if err != nil {
		return nil, viol("descriptor-parse-error", "op %d: stored descriptor list is rejected by parseIndex: %v", opi, err)
	}
	return ds, nil
}

func (w *world) apply(opi int, op Op) *simcore.Violation {
	if op.I < 0 || op.I >= len(w.models) {
		return nil
	}
	m := w.models[op.I]
	switch op.K {
	case "app":
		// real usage: limit = id of the last indexed history, which is >= every stored id
		return w.appendLoop(opi, op, m.last()+op.A%3, 0)
	case "pop":
		if len(m.ids) == 0 {
			return nil
		}
		return w.popLoop(opi, op, m.last()+op.A%2)
	case "trim":
		var lim uint64
		if len(m.ids) > 0 {
			j := int(op.A % uint64(len(m.ids)))
			switch op.M {
			case 0:
				lim = m.ids[j]
			case 1:
				lim = m.ids[j] - 1
			case 2:
				lim = m.ids[j] + 1
			case 3:
				lim = 0
			case 4:
				lim = m.last() + 5
			default:
				// at / just above the newest id of a block (5, 6): the trailing-block rule
				if ds, v := w.descs(opi, op.I); v != nil {
					return v
				} else if len(ds) > 0 {
					lim = ds[op.A%uint64(len(ds))].Max + uint64(op.M-5)
				}
			}
		}
		cut := m.gt(lim)
		if cut < len(m.ids) {
			w.res.Probe("limit-drops-elements")
			ds, v := w.descs(opi, op.I)
			if v != nil {
				return v
			}
			// number of whole trailing blocks above the limit
			n, acc := 0, 0
			for _, d := range ds {
				if acc >= cut && acc > 0 {
					n++
				}
				acc += d.Entries
			}
			if n > 0 {
				w.res.Probe("limit-drops-whole-block")
			}
			if cut == 0 {
				w.res.Probe("limit-drops-everything")
			}
		}
		m.ids, m.exts = m.ids[:cut], m.exts[:cut]
		op2 := op
		if op2.N < 1 {
			op2.N = 1
		}
		op2.U = ""
		w.logf("trim", uint64(opi), lim)
		return w.appendLoop(opi, op2, lim, lim)
	case "dtrim":
		if len(m.ids) == 0 {
			return nil
		}
		j := int(op.A % uint64(len(m.ids)))
		lim := m.ids[j]
		if j+1 < len(m.ids) {
			w.res.Probe("limit-drops-elements")
		}
		m.ids, m.exts = m.ids[:j+1], m.exts[:j+1]
		op2 := op
		if op2.N < 1 {
			op2.N = 1
		}
		w.logf("dtrim", uint64(opi), lim)
		return w.popLoop(opi, op2, lim)
	case "prune":
		return w.prune(opi, op)
	}
	return nil
}

func (w *world) prune(opi int, op Op) *simcore.Violation {
	m := w.models[op.I]
	ds, v := w.descs(opi, op.I)
	if v != nil {
		return v
	}
	var tail uint64
	switch {
	case len(m.ids) == 0:
		tail = op.A % 1000
	case op.M == 0 && len(ds) > 0:
		tail = ds[op.A%uint64(len(ds))].Max
		w.res.Probe("prune-tail-equals-block-max")
	case op.M == 1 && len(ds) > 0:
		tail = ds[op.A%uint64(len(ds))].Max + 1
	case op.M == 2 && len(ds) > 0:
		tail = ds[op.A%uint64(len(ds))].Max - 1
	case op.M == 3:
		tail = m.ids[op.A%uint64(len(m.ids))]
	case op.M == 4:
		tail = m.last() + 1
	default:
		tail = m.ids[0] + op.A%3
	}
	ht := w.idents[op.I].HistoryType()
	before := w.kv.LogLen()
	if err := pathdb.VerifIdxPrune(w.kv, ht, tail); err != nil {
		return viol("prune-error", "op %d: index pruner (tail %d) failed: %v", opi, tail, err)
	}
	w.prunes++
	w.steps++
	w.logf("prune", uint64(opi), tail)
	for i, id := range w.idents {
		if id.HistoryType() != ht {
			continue
		}
		mi := w.models[i]
		got, v := w.iterateAll(opi, i, -1)
		if v != nil {
			return v
		}
		// what remains must be a suffix of what was stored ...
		if len(got) > len(mi.ids) {
			return viol("prune-invents-ids", "op %d: after pruning below %d element %d holds %d ids, before it held %d", opi, tail, i, len(got), len(mi.ids))
		}
		off := len(mi.ids) - len(got)
		for k, x := range got {
			if mi.ids[off+k] != x {
				return viol("prune-not-a-suffix", "op %d: after pruning below %d element %d yields id %d at position %d, the stored suffix has %d", opi, tail, i, x, k, mi.ids[off+k])
			}
		}
		// ... and must still hold every id >= tail
		if off > 0 && mi.ids[off-1] >= tail {
			return viol("prune-drops-live-id", "op %d: pruning below tail %d removed id %d (>= tail) of element %d; ids before: %d, after: %d", opi, tail, mi.ids[off-1], i, len(mi.ids), len(got))
		}
		if off > 0 {
			w.res.Probe("prune-removed-ids")
			if len(got) == 0 {
				w.res.Probe("prune-removed-everything")
			} else {
				w.res.Probe("prune-removed-leading-blocks")
			}
		}
		mi.ids, mi.exts = mi.ids[off:], mi.exts[off:]
	}
	if w.kv.LogLen() == before {
		w.res.Probe("prune-noop")
	}
	return nil
}

// ---------------------------------------------------------------- checks

func (w *world) reader(opi, i int) (*pathdb.VerifIdxReader, *simcore.Violation) {
	r, err := pathdb.VerifIdxNewReader(w.kv, w.idents[i])
	if err != nil {
		return nil, viol("reader-open-error", "op %d: newIndexReader on the stored bytes failed: %v", opi, err)
	}
	return r, nil
}

func (w *world) checkGT(opi, i int, r *pathdb.VerifIdxReader, q uint64) *simcore.Violation {
	m := w.models[i]
	got, err := r.ReadGreaterThan(q)
	if err != nil {
		return viol("read-error", "op %d: readGreaterThan(%d) failed: %v", opi, q, err)
	}
	want := uint64(math.MaxUint64)
	if k := m.gt(q); k < len(m.ids) {
		want = m.ids[k]
	}
	w.log = w.log.U64(q).U64(got)
	if got != want {
		return viol("read-greater-than", "op %d: readGreaterThan(%d) = %d, least stored id greater than the query is %d (stored: %d ids, newest %d)", opi, q, got, want, len(m.ids), m.last())
	}
	return nil
}

// checkQuick: a handful of lookups around the newest id and the boundaries.
func (w *world) checkQuick(opi, i int) *simcore.Violation {
	m := w.models[i]
	r, v := w.reader(opi, i)
	if v != nil {
		return v
	}
	qs := []uint64{m.last(), 0}
	if n := len(m.ids); n > 0 {
		qs = append(qs, m.last()-1)
		if n > 1 {
			qs = append(qs, m.ids[n-2], m.ids[n-2]-1)
		}
		qs = append(qs, m.ids[w.qr.Intn(n)])
		k := n - 1 - (n-1)%pathdb.VerifIdxRestartLen // not exact (blocks), still a spread
		qs = append(qs, m.ids[k]-1)
	}
	for _, q := range qs {
		if v := w.checkGT(opi, i, r, q); v != nil {
			return v
		}
	}
	return nil
}

func (w *world) iterateAll(opi, i, filter int) ([]uint64, *simcore.Violation) {
	r, v := w.reader(opi, i)
	if v != nil {
		return nil, v
	}
	it := r.Iterator(filter)
	var out []uint64
	bound := len(w.models[i].ids) + 8
	for it.Next() {
		out = append(out, it.ID())
		if len(out) > bound+1<<16 {
			return nil, viol("iteration-unbounded", "op %d: iteration yields more than %d ids, %d are stored", opi, len(out), len(w.models[i].ids))
		}
	}
	if err := it.Error(); err != nil {
		return nil, viol("iteration-error", "op %d: iteration (filter %d) failed after %d ids: %v", opi, filter, len(out), err)
	}
	return out, nil
}

// checkFull: everything the property states, against the sorted-slice model.
func (w *world) checkFull(opi, i int) *simcore.Violation {
	m := w.models[i]
	id := w.idents[i]
	// 1. iteration yields the stored ids in order
	got, v := w.iterateAll(opi, i, -1)
	if v != nil {
		return v
	}
	if len(got) != len(m.ids) {
		k := 0
		for k < len(got) && k < len(m.ids) && got[k] == m.ids[k] {
			k++
		}
		return viol("iteration-content", "op %d: iteration yields %d ids, %d are stored (first difference at position %d)", opi, len(got), len(m.ids), k)
	}
	for k := range got {
		if got[k] != m.ids[k] {
			return viol("iteration-content", "op %d: iteration position %d yields %d, stored id is %d", opi, k, got[k], m.ids[k])
		}
	}
	w.log = w.log.U64(uint64(len(got)))
	// 2. descriptors and per-block decode(encode) identity
	ds, v := w.descs(opi, i)
	if v != nil {
		return v
	}
	acc := 0
	var bounds []int // model positions where a block starts
	for k, d := range ds {
		if d.Entries == 0 {
			return viol("descriptor-empty-block", "op %d: stored descriptor %d (block id %d) has no entries", opi, k, d.ID)
		}
		if k > 0 && d.ID != ds[k-1].ID+1 {
			return viol("descriptor-chain", "op %d: block ids not consecutive: %d then %d", opi, ds[k-1].ID, d.ID)
		}
		bounds = append(bounds, acc)
		acc += d.Entries
		if acc > len(m.ids) {
			return viol("descriptor-count", "op %d: descriptors count %d+ ids, %d are stored", opi, acc, len(m.ids))
		}
		if d.Max != m.ids[acc-1] {
			return viol("descriptor-max", "op %d: descriptor %d says max %d, the block's newest stored id is %d", opi, k, d.Max, m.ids[acc-1])
		}
		elems, err := pathdb.VerifIdxBlockElems(w.kv, id, d.ID)
		if err != nil {
			return viol("block-decode-error", "op %d: stored block %d is rejected by the block reader: %v", opi, d.ID, err)
		}
		if len(elems) != d.Entries {
			return viol("block-roundtrip", "op %d: block %d decodes to %d ids, descriptor says %d", opi, d.ID, len(elems), d.Entries)
		}
		for j, x := range elems {
			if x != m.ids[acc-d.Entries+j] {
				return viol("block-roundtrip", "op %d: block %d position %d decodes to %d, appended id was %d", opi, d.ID, j, x, m.ids[acc-d.Entries+j])
			}
		}
	}
	if acc != len(m.ids) {
		return viol("descriptor-count", "op %d: descriptors count %d ids, %d are stored", opi, acc, len(m.ids))
	}
	if len(ds) > w.maxBlk {
		w.maxBlk = len(ds)
	}
	w.state = w.state.U64(uint64(len(m.ids))).U64(uint64(len(ds)))
	// 3. lookups: around every block boundary, restart-section boundaries, random
	r, v := w.reader(opi, i)
	if v != nil {
		return v
	}
	qs := []uint64{0, 1, m.last(), m.last() + 1, math.MaxUint64 - 1}
	around := func(pos int) {
		for d := -2; d <= 1; d++ {
			if p := pos + d; p >= 0 && p < len(m.ids) {
				qs = append(qs, m.ids[p], m.ids[p]-1)
			}
		}
	}
	for _, b := range bounds {
		around(b)
	}
	for bi, b := range bounds {
		end := len(m.ids)
		if bi+1 < len(bounds) {
			end = bounds[bi+1]
		}
		// at most a few section boundaries per block
		for s := b + pathdb.VerifIdxRestartLen; s < end; s += pathdb.VerifIdxRestartLen {
			if w.qr.Bool(0.5) || end-s < pathdb.VerifIdxRestartLen {
				around(s)
			}
		}
	}
	for k := 0; k < 6 && len(m.ids) > 0; k++ {
		x := m.ids[w.qr.Intn(len(m.ids))]
		qs = append(qs, x, x-1, x+1)
	}
	if len(m.ids) > 0 {
		qs = append(qs, w.qr.Uint64()%(m.last()+2))
	}
	for _, q := range qs {
		if v := w.checkGT(opi, i, r, q); v != nil {
			return v
		}
	}
	// 4. seek then walk: the iterator continues in order from where SeekGT put it
	//    (restart-section bookkeeping), also seeking backwards on the same iterator
	it := r.Iterator(-1)
	var seekQs []uint64
	for k := 0; k < 5; k++ {
		seekQs = append(seekQs, qs[w.qr.Intn(len(qs))])
	}
	for _, b := range bounds {
		for s := b; s < len(m.ids) && s < b+3*pathdb.VerifIdxRestartLen; s += pathdb.VerifIdxRestartLen {
			if s >= 2 {
				seekQs = append(seekQs, m.ids[s-2], m.ids[s-1]-1+uint64(w.qr.Intn(2)))
			}
		}
	}
	for _, q := range seekQs {
		pos := m.gt(q)
		found := it.SeekGT(q)
		if err := it.Error(); err != nil {
			return viol("seek-error", "op %d: SeekGT(%d) failed: %v", opi, q, err)
		}
		if found != (pos < len(m.ids)) {
			return viol("seek-found", "op %d: SeekGT(%d) reports found=%v, the model has %d ids greater than the query", opi, q, found, len(m.ids)-pos)
		}
		if !found {
			continue
		}
		if it.ID() != m.ids[pos] {
			return viol("seek-position", "op %d: SeekGT(%d) lands on %d, least stored id greater than the query is %d", opi, q, it.ID(), m.ids[pos])
		}
		walk := 3 + w.qr.Intn(4)
		for s := 1; s <= walk; s++ {
			ok := it.Next()
			if err := it.Error(); err != nil {
				return viol("seek-error", "op %d: Next after SeekGT(%d) failed: %v", opi, q, err)
			}
			if ok != (pos+s < len(m.ids)) {
				return viol("seek-then-next", "op %d: %d-th Next after SeekGT(%d) returns %v, model has %d ids after the seek position", opi, s, q, ok, len(m.ids)-pos-1)
			}
			if !ok {
				break
			}
			if it.ID() != m.ids[pos+s] {
				return viol("seek-then-next", "op %d: %d-th Next after SeekGT(%d) yields %d, stored successor is %d", opi, s, q, it.ID(), m.ids[pos+s])
			}
		}
	}
	// 5. extension filters never drop a matching element
	if w.bsize[i] != 0 && len(m.ids) > 0 {
		lim := extLimit(w.bsize[i])
		var fs []int
		fs = append(fs, 0, w.qr.Range(1, 16))
		e := m.exts[w.qr.Intn(len(m.exts))]
		fs = append(fs, int(e[w.qr.Intn(len(e))]))
		if lim > 16 {
			fs = append(fs, w.qr.Range(17, lim))
			if x := e[len(e)-1]; x > 16 {
				fs = append(fs, int(parentID(x)))
			}
		}
		for _, f := range fs {
			got, v := w.iterateAll(opi, i, f)
			if v != nil {
				return v
			}
			k := 0 // walks the model
			nmatch := 0
			var prev uint64
			for n, x := range got {
				if n > 0 && x <= prev {
					return viol("filter-order", "op %d: filtered iteration (node %d) yields %d after %d", opi, f, x, prev)
				}
				prev = x
				for k < len(m.ids) && m.ids[k] < x {
					if matches(uint16(f), m.exts[k]) {
						return viol("filter-drops-match", "op %d: filtered iteration (node %d) skips stored id %d whose extension %v matches", opi, f, m.ids[k], m.exts[k])
					}
					k++
				}
				if k == len(m.ids) || m.ids[k] != x {
					return viol("filter-invents-id", "op %d: filtered iteration (node %d) yields %d which is not stored", opi, f, x)
				}
				if matches(uint16(f), m.exts[k]) {
					nmatch++
				}
				k++
			}
			if nmatch > 0 {
				w.res.Probe("filter-match-returned")
			}
			if nmatch < len(got) {
				w.res.Probe("filter-returned-nonmatching")
			}
			if len(got) < len(m.ids) {
				w.res.Probe("filter-skipped-elements")
			}
			for ; k < len(m.ids); k++ {
				if matches(uint16(f), m.exts[k]) {
					return viol("filter-drops-match", "op %d: filtered iteration (node %d) ends before stored id %d whose extension %v matches", opi, f, m.ids[k], m.exts[k])
				}
			}
			w.log = w.log.U64(uint64(f)).U64(uint64(len(got)))
			// filtered seek: must not jump over a matching element
			fit := r.Iterator(f)
			q := m.ids[w.qr.Intn(len(m.ids))] - uint64(w.qr.Intn(2))
			found := fit.SeekGT(q)
			if err := fit.Error(); err != nil {
				return viol("seek-error", "op %d: filtered SeekGT(%d) (node %d) failed: %v", opi, q, f, err)
			}
			first := -1
			for k := m.gt(q); k < len(m.ids); k++ {
				if matches(uint16(f), m.exts[k]) {
					first = k
					break
				}
			}
			if first >= 0 && (!found || fit.ID() > m.ids[first]) {
				return viol("filter-drops-match", "op %d: filtered SeekGT(%d) (node %d) found=%v skips stored id %d whose extension %v matches", opi, q, f, found, m.ids[first], m.exts[first])
			}
			if found {
				if x := fit.ID(); x <= q || m.gt(x-1) >= len(m.ids) || m.ids[m.gt(x-1)] != x {
					return viol("filter-invents-id", "op %d: filtered SeekGT(%d) (node %d) lands on %d which is not a stored id greater than the query", opi, q, f, x)
				}
			}
		}
	}
	// 6. re-encode identity: a writer rebuilt from the stored bytes writes the same bytes back
	if len(m.ids) > 0 {
		wr, err := pathdb.VerifIdxNewWriter(w.kv, id, math.MaxUint64)
		if err != nil {
			return viol("writer-open-error", "op %d: newIndexWriter on the stored bytes failed: %v", opi, err)
		}
		b := memorydb.New().NewBatch()
		wr.Finish(b)
		chk := &sameBytes{kv: w.kv}
		if err := b.Replay(chk); err != nil {
			return viol("reencode-differs", "op %d: %v", opi, err)
		}
		if chk.n == 0 {
			return viol("reencode-differs", "op %d: a writer over %d stored ids finishes without writing anything", opi, len(m.ids))
		}
	}
	return nil
}

type sameBytes struct {
	kv *simdisk.SimKV
	n  int
}

func (s *sameBytes) Put(key, val []byte) error {
	s.n++
	cur, _ := s.kv.Mem().Get(key)
	if !bytes.Equal(cur, val) {
		return fmt.Errorf("writer rebuilt from the stored bytes re-encodes key %x to %d bytes that differ from the %d stored bytes", key, len(val), len(cur))
	}
	return nil
}
func (s *sameBytes) Delete(key []byte) error {
	return fmt.Errorf("writer rebuilt from the stored bytes deletes key %x", key)
}

// ---------------------------------------------------------------- corruption

var corrKinds = []string{"flip", "set", "fill", "rand", "trunc", "extend", "bigvar", "count", "delete", "empty", "desc-short", "desc-noentries", "swap"}

func mutate(orig []byte, c Corr) []byte {
	r := simcore.NewRand(c.Seed)
	b := append([]byte{}, orig...)
	n := len(b)
	off := 0
	if n > 0 {
		off = int(c.Off % uint64(n))
	}
	switch c.Kind {
	case "flip":
		if n > 0 {
			b[off] ^= 1 << (c.Seed % 8)
		}
	case "set":
		if n > 0 {
			b[off] = []byte{0, 0xff, 0x80, 0x7f, 1}[c.Seed%5]
		}
	case "fill":
		for i := off; i < n && i < off+c.Len; i++ {
			b[i] = 0xff
		}
	case "rand":
		rb := r.Bytes(c.Len)
		for i := off; i < n && i < off+c.Len; i++ {
			b[i] = rb[i-off]
		}
	case "trunc":
		b = b[:off]
	case "extend":
		b = append(b, r.Bytes(c.Len)...)
	case "bigvar":
		// a 10-byte uvarint >= 2^63 (a length or delta field that does not fit an int)
		v := binary.AppendUvarint(nil, 1<<63|c.Seed>>1)
		for i := 0; i < len(v) && off+i < n; i++ {
			b[off+i] = v[i]
		}
	case "count":
		if n > 0 {
			b[n-1] = byte(c.Seed)
		}
	case "delete", "empty":
		b = nil
	case "desc-short":
		if n > 1 {
			b = b[:n-1-int(c.Off%uint64(min(n-1, 13)))]
		}
	case "desc-noentries":
		// only meaningful on descriptor lists; on blocks it is two zero bytes
		if n >= 10 {
			k := (off / 14) * 14
			if k+10 <= n {
				b[k+8], b[k+9] = 0, 0
			}
		}
	case "swap":
		if n > 1 {
			j := int(r.Intn(n))
			b[off], b[j] = b[j], b[off]
		}
	}
	return b
}

// guarded runs fn and converts a panic into (msg, site); a call that does not
// return within the timeout is reported as hung (the goroutine is leaked).
func guarded(timeout time.Duration, fn func()) (panicked bool, msg string, hung bool) {
	done := make(chan struct{})
	go func() {
		defer close(done)
		defer func() {
			if r := recover(); r != nil {
				if hp, ok := r.(simcore.HarnessPanic); ok {
					msg = "HARNESS:" + hp.Msg
					return
				}
				panicked, msg = true, fmt.Sprint(r)+" @ "+pathdbFrames(string(debug.Stack()))
			}
		}()
		fn()
	}()
	select {
	case <-done:
		return
	case <-time.After(timeout):
		hangSeen = true
		return false, "", true
	}
}

// pathdbFrames lists the pathdb functions on a panic stack, innermost first.
func pathdbFrames(st string) string {
	var out []string
	for _, l := range strings.Split(st, "\n") {
		if strings.HasPrefix(l, "github.com/ethereum/go-ethereum/triedb/pathdb.") && !strings.Contains(l, "Verif") {
			l = strings.TrimPrefix(l, "github.com/ethereum/go-ethereum/triedb/pathdb.")
			if i := strings.LastIndex(l, "("); i > 0 {
				l = l[:i]
			}
			out = append(out, l)
			if len(out) == 4 {
				break
			}
		}
	}
	return strings.Join(out, " < ")
}

// panicFrame is the innermost pathdb function of a guarded panic message.
func panicFrame(msg string) string {
	if i := strings.Index(msg, " @ "); i >= 0 {
		f := msg[i+3:]
		if j := strings.Index(f, " < "); j >= 0 {
			f = f[:j]
		}
		return f
	}
	return "unknown"
}

func msgClass(s string) string {
	// strip numbers so that the key names the failure class, not the instance
	var sb strings.Builder
	lastDigit := false
	for _, c := range s {
		if c >= '0' && c <= '9' {
			if !lastDigit {
				sb.WriteByte('N')
			}
			lastDigit = true
			continue
		}
		lastDigit = false
		sb.WriteRune(c)
	}
	out := sb.String()
	if len(out) > 70 {
		out = out[:70]
	}
	return out
}

func (w *world) corruptionRounds() *simcore.Violation {
	keys, _ := simdisk.DumpMem(w.kv.Mem(), []byte("m"))
	if len(keys) == 0 {
		return nil
	}
	metaLen := map[int]bool{} // key lengths of descriptor-list keys
	for i, id := range w.idents {
		_ = i
		switch id.Typ {
		case 0:
			metaLen[2+32] = true
		case 1:
			metaLen[2+64] = true
		default:
			metaLen[2+32+len(id.Path)] = true
		}
	}
	isMeta := func(k []byte) bool { return len(k) >= 2 && k[1] != 'b' }
	// bound on the ids any terminating iteration can yield: every Next consumes at least
	// one byte of one block, and at most one block is visited per descriptor slot (a
	// corrupted descriptor list may point at the same block several times)
	var maxLen, slots int
	for _, k := range keys {
		v, _ := w.kv.Mem().Get(k)
		maxLen = max(maxLen, len(v))
		if isMeta(k) {
			slots += len(v)/pathdb.VerifIdxDescSize + 1
		}
	}
	for ci, c := range w.p.Corrupt {
		key := keys[c.Key%uint64(len(keys))]
		orig, _ := w.kv.Mem().Get(key)
		orig = append([]byte{}, orig...)
		mut := mutate(orig, c)
		if bytes.Equal(mut, orig) {
			continue
		}
		if len(mut) == 0 {
			w.kv.Mem().Delete(key)
		} else {
			w.kv.Mem().Put(key, mut)
		}
		meta := isMeta(key)
		kind := "corrupt-block-" + c.Kind
		if meta {
			kind = "corrupt-descriptor-" + c.Kind
		}
		w.res.Fault(kind)
		w.logf("corrupt", uint64(ci), uint64(len(mut)))
		bound := (slots + len(mut)/pathdb.VerifIdxDescSize + 2) * (max(maxLen, len(mut)) + 16)
		for i := range w.idents {
			if v := w.exerciseReader(ci, c, i, key, meta, mut, bound); v != nil {
				if !isKnown(v.Key) {
					return v
				}
				w.res.KnownHit(v.Key)
			}
			if w.p.Writers && isKnown("corrupt-writer-hang") && (hasOverflowVarint(mut) || endsInContinuation(mut)) {
				// the recorded non-termination would leak a spinning goroutine per hit
				w.res.Probe("writer-exercise-skipped-known-hang")
			} else if w.p.Writers && !hangSeen && os.Getenv("IDXSIM_NOWRITERS") == "" {
				if v := w.exerciseWriters(ci, c, i); v != nil {
					if !isKnown(v.Key) {
						return v
					}
					w.res.KnownHit(v.Key)
				}
			}
		}
		if len(orig) == 0 {
			w.kv.Mem().Delete(key)
		} else {
			w.kv.Mem().Put(key, orig)
		}
	}
	return nil
}

// exerciseReader: on corrupted bytes the reader may fail, it must not panic, must
// terminate, and for the structural corruptions whose effect is decidable it must
// fail rather than answer.
func (w *world) exerciseReader(ci int, c Corr, i int, key []byte, meta bool, mut []byte, bound int) *simcore.Violation {
	m := w.models[i]
	id := w.idents[i]
	var v *simcore.Violation
	rejected, answered := 0, 0
	panicked, msg, hung := guarded(20*time.Second, func() {
		r, err := pathdb.VerifIdxNewReader(w.kv, id)
		if err != nil {
			rejected++
			return
		}
		mine := w.ownsKey(i, key)
		if mine && meta && len(mut) > 0 && len(mut)%(pathdb.VerifIdxDescSize+w.bsize[i]) != 0 {
			v = viol("corrupt-accepted", "corruption %d (%s): a descriptor list of %d bytes (not a multiple of %d) is accepted by newIndexReader", ci, c.Kind, len(mut), pathdb.VerifIdxDescSize+w.bsize[i])
			return
		}
		qs := []uint64{0, m.last(), math.MaxUint64 - 1}
		for k := 0; k < 6 && len(m.ids) > 0; k++ {
			qs = append(qs, m.ids[w.qr.Intn(len(m.ids))]-uint64(w.qr.Intn(2)))
		}
		for _, q := range qs {
			got, err := r.ReadGreaterThan(q)
			if err != nil {
				rejected++
				continue
			}
			answered++
			// a block that is gone cannot be answered from
			if mine && !meta && len(mut) == 0 {
				if k := m.gt(q); k < len(m.ids) && w.blockOf(i, k) == blockIDOf(key) {
					v = viol("corrupt-accepted", "corruption %d (%s): readGreaterThan(%d) = %d although the index block holding the answer (%d) is missing", ci, c.Kind, q, got, m.ids[k])
					return
				}
			}
			if !mine {
				// untouched element: still exact
				want := uint64(math.MaxUint64)
				if k := m.gt(q); k < len(m.ids) {
					want = m.ids[k]
				}
				if got != want {
					v = viol("corrupt-leaks", "corruption %d (%s) of key %x changes readGreaterThan(%d) of another element: %d, want %d", ci, c.Kind, key, q, got, want)
					return
				}
			}
		}
		for _, f := range []int{-1, 0, 5} {
			if f >= 0 && w.bsize[i] == 0 {
				continue
			}
			it := r.Iterator(f)
			n := 0
			for it.Next() {
				n++
				if n > bound {
					v = viol("corrupt-nontermination", "corruption %d (%s): iteration yields more ids (%d) than the stored descriptors and blocks can encode", ci, c.Kind, n)
					return
				}
			}
			if it.Error() != nil {
				rejected++
			} else {
				answered++
			}
			it2 := r.Iterator(f)
			if len(m.ids) > 0 && it2.SeekGT(m.ids[w.qr.Intn(len(m.ids))]-1) {
				for s := 0; s < 4 && it2.Next(); s++ {
				}
			}
		}
	})
	if hung {
		return &simcore.Violation{Oracle: "corrupt-reader-hang", Key: "corrupt-reader-hang", Msg: fmt.Sprintf("corruption %d (%s at %d of key %x): a reader call did not return within 20 s", ci, c.Kind, c.Off, key)}
	}
	if strings.HasPrefix(msg, "HARNESS:") {
		simcore.Harnessf("%s", msg)
	}
	if panicked {
		return &simcore.Violation{Oracle: "corrupt-reader-panic", Key: "corrupt-reader-panic:" + panicFrame(msg), Msg: fmt.Sprintf("corruption %d (%s at offset %d of key %x, %d bytes): the index reader panics instead of returning an error: %s", ci, c.Kind, c.Off, key, len(mut), msg)}
	}
	if v != nil {
		return v
	}
	if rejected > 0 {
		w.res.Probe("corruption-rejected-with-error")
	}
	if answered > 0 && rejected == 0 {
		w.res.Probe("corruption-not-noticed")
	}
	return nil
}

// exerciseWriters: writer, deleter and pruner rebuilt on corrupted bytes may
// fail; they must not panic or spin. Nothing they produce is written.
func (w *world) exerciseWriters(ci int, c Corr, i int) *simcore.Violation {
	m := w.models[i]
	id := w.idents[i]
	if len(m.ids) == 0 {
		return nil
	}
	// limits close to the newest id: trimming pops cost O(block) each in the tree under test
	n := len(m.ids)
	lims := []uint64{m.last(), m.ids[max(0, n-1-w.qr.Intn(6))], m.ids[max(0, n-1-w.qr.Intn(40))] - 1}
	panicked, msg, hung := guarded(5*time.Second, func() {
		for _, lim := range lims {
			if wr, err := pathdb.VerifIdxNewWriter(w.kv, id, lim); err == nil {
				_ = wr.Append(m.last()+1, w.genExt(simcore.NewRand(c.Seed), i, 1))
				wr.Finish(memorydb.New().NewBatch())
			}
			if d, err := pathdb.VerifIdxNewDeleter(w.kv, id, lim); err == nil {
				for k := 0; k < 3; k++ {
					if d.Pop(d.LastID()) != nil {
						break
					}
				}
				d.Finish(memorydb.New().NewBatch())
			}
		}
	})
	if hung {
		return &simcore.Violation{Oracle: "corrupt-writer-hang", Key: "corrupt-writer-hang", Msg: fmt.Sprintf("corruption %d (%s at offset %d): rebuilding the writer/deleter on the corrupted bytes did not return within 5 s (blockWriter.scanSection walks backwards on an overflowing varint)", ci, c.Kind, c.Off)}
	}
	if panicked {
		return &simcore.Violation{Oracle: "corrupt-writer-panic", Key: "corrupt-writer-panic", Msg: fmt.Sprintf("corruption %d (%s at offset %d, len %d): the index writer/deleter panics on the corrupted bytes instead of returning an error: %s", ci, c.Kind, c.Off, c.Len, msg)}
	}
	return nil
}

// hasOverflowVarint: nine continuation bytes followed by a byte > 1, i.e. a varint
// for which binary.Uvarint reports overflow (n < 0). Never present in intact data
// (ids stay below 2^63).
func hasOverflowVarint(b []byte) bool {
	run := 0
	for _, c := range b {
		if run >= 9 && c > 1 {
			return true
		}
		if c >= 0x80 {
			run++
		} else {
			run = 0
		}
	}
	return false
}

// endsInContinuation: the data part of the block (as parseIndexBlock would cut it)
// ends inside a varint, for which binary.Uvarint returns n == 0: scanSection then
// stops advancing.
func endsInContinuation(b []byte) bool {
	if len(b) == 0 {
		return false
	}
	end := len(b) - (2*int(b[len(b)-1]) + 1)
	return end > 0 && end <= len(b) && b[end-1] >= 0x80
}

func blockIDOf(key []byte) uint32 { return binary.BigEndian.Uint32(key[len(key)-4:]) }

// ownsKey reports whether the stored key belongs to element i.
func (w *world) ownsKey(i int, key []byte) bool {
	id := w.idents[i]
	var pre string
	var body []byte
	switch id.Typ {
	case 0:
		pre, body = "a", id.Owner.Bytes()
	case 1:
		pre, body = "s", append(id.Owner.Bytes(), id.Slot.Bytes()...)
	default:
		pre, body = "t", append(id.Owner.Bytes(), []byte(id.Path)...)
	}
	if bytes.Equal(key, append([]byte("m"+pre), body...)) {
		return true
	}
	if len(key) == 3+len(body)+4 && bytes.Equal(key[:3+len(body)], append([]byte("mb"+pre), body...)) {
		return true
	}
	return false
}

// blockOf returns the block id holding model position k (from the stored, intact descriptors).
func (w *world) blockOf(i, k int) uint32 {
	ds, err := pathdb.VerifIdxDescs(w.kv, w.idents[i])
	if err != nil {
		return math.MaxUint32
	}
	acc := 0
	for _, d := range ds {
		acc += d.Entries
		if k < acc {
			return d.ID
		}
	}
	return math.MaxUint32
}

// ---------------------------------------------------------------- run

func run(t *testing.T, pl any) *simcore.Result {
	p := pl.(*Plan)
	res := simcore.NewResult()
	if len(p.Idents) == 0 {
		return res
	}
	w := &world{p: p, kv: simdisk.NewSimKV(nil), res: res, log: simcore.NewHash(), state: simcore.NewHash(), qr: simcore.NewRand(p.QSeed)}
	for _, id := range p.Idents {
		v := id.v()
		w.idents = append(w.idents, v)
		w.bsize = append(w.bsize, v.BitmapSize())
		w.models = append(w.models, &model{})
		if id.T == 2 && v.BitmapSize() == 0 {
			simcore.Harnessf("trie node element with path length %d has no bitmap size in the tree under test", len(id.P))
		}
	}
	finish := func(v *simcore.Violation) *simcore.Result {
		// the op log of the simulated disk is part of the determinism fingerprint
		for _, u := range w.kv.Log {
			w.log = w.log.U64(u.Seq).U64(uint64(u.Kind))
			for _, o := range u.Batch {
				w.log = w.log.U64(uint64(o.Kind)).Bytes(o.Key).Bytes(o.Val)
			}
		}
		res.LogHash = uint64(w.log)
		res.StateFP = uint64(w.state)
		res.Events = len(w.kv.Log)
		res.NonTrivial = (w.maxBlk >= 2 || w.secs > 0) && (w.pops > 0 || w.prunes > 0)
		if len(p.Corrupt) > 0 {
			res.NonTrivial = res.NonTrivial || len(res.Faults) > 0
		}
		if v != nil {
			res.Fail(v)
		}
		return res
	}
	for opi, op := range p.Ops {
		if v := w.apply(opi, op); v != nil {
			return finish(v)
		}
		w.state = w.state.String(op.K)
		for i := range w.idents {
			if i == op.I || op.K == "prune" {
				if v := w.checkFull(opi, i); v != nil {
					return finish(v)
				}
			}
		}
	}
	if len(p.Corrupt) > 0 {
		// the intact state must pass before it is corrupted
		for i := range w.idents {
			if v := w.checkFull(len(p.Ops), i); v != nil {
				return finish(v)
			}
		}
		if v := w.corruptionRounds(); v != nil {
			return finish(v)
		}
		// restored bytes: intact again
		for i := range w.idents {
			if v := w.checkFull(len(p.Ops)+1, i); v != nil {
				v.Oracle, v.Key = "harness-restore", "harness-restore"
				simcore.Harnessf("state differs after the corrupted bytes were restored: %s", v.Msg)
			}
		}
	}
	return finish(nil)
}

func Checks() map[string]*simcore.Check {
	return map[string]*simcore.Check{"C19": {
		ID: "C19", Engine: "idxsim", Level: "exploration",
		Rule: "plan = 1-2 indexed elements (account, storage slot, trie-node chunk with 2- or 34-byte extension bitmap) and 4-18 (thorough: 4-40) operations on the real pathdb history index persisted in a SimKV: ascending appends (gap classes from 1 to 2^50, extension lists of 1-24 node ids), appends that run up to a restart-section (256 ids) or block (4096 bytes) boundary, pops of the newest ids through the deleter, tail pruning through the real pruner pass (tails aimed at block maxima +-1), writer/deleter reopened with a recovery limit (below/at/above stored ids and at block maxima +0/+1). Writer and deleter are rebuilt from the stored bytes after every op and, per the op's cadence, after every element (always next to boundaries); a fresh reader is built for every check, and in append ops a reader opened before the appends follows them through refresh(). After each op: full iteration, lookups around every block and section boundary, seek-then-walk, filtered iteration/seek, descriptor/ block decode and re-encode identity against a sorted-slice model. 30% of the plans add the fault configuration: 6-24 corruptions of one stored descriptor list or block each (bit flip, byte set, 0xff fill, random overwrite, truncate, extend, oversized varint, restart count, delete, short/empty descriptor, swap), applied one at a time and restored. Non-trivial = the history crossed a block or restart-section boundary and popped or pruned (or a corruption was applied); distinct = distinct sequences of (op kind, stored ids, blocks) after each op.",
		Assumptions: []string{
			"the writer is used as the indexer uses it: ids > 0, strictly ascending, extension ids within the chunk (0..16 / 0..272), limit >= every legitimately stored id except in the recovery ops; the deleter is opened with limit = an id that is stored (the history being unindexed)",
			"pruning below tail T must keep every id >= T and may remove only a prefix of the stored ids (the pruner works on whole blocks); how much of the prefix below T goes is not judged",
			"extension filters: only 'never drops a matching element, never yields an id that is not stored, ascending' is judged, not exactness",
			"corrupted bytes: no checksum exists, so a wrong answer after a value-level corruption is not judged; judged are panics, non-termination, and the structural cases whose outcome is decidable (descriptor list of a non-multiple length, missing block holding the answer, effect on an untouched element)",
		},
		Components: simcore.Components{
			Real: []string{"triedb/pathdb indexWriter, indexDeleter, indexReader, blockWriter, blockReader, blockIterator, indexIterator, extFilter, indexPruner.process/prunePrefix/pruneEntry, parseIndex, parseIndexBlock", "core/rawdb history index accessors", "ethdb/memorydb"},
			Stub: []string{"disk: simdisk.SimKV (op log, no faults in the fault-free configuration)", "the indexer around the index structures (batchIndexer, metadata) is replaced by the plan", "the pruner's goroutine, trigger threshold and pause protocol are not run: one synchronous process(tail) pass"}},
		Runs: map[string]int{"quick": 9000, "thorough": 600000},
		Gen:  gen, Decode: decode, Run: run, Shrink: shrink,
		ProbeNames: []string{"block-rotated", "append-opens-restart-section", "pop-closes-restart-section", "pop-crosses-block-boundary", "pop-empties-index",
			"prune-removed-leading-blocks", "prune-removed-everything", "prune-tail-equals-block-max", "limit-drops-elements", "limit-drops-whole-block", "limit-drops-everything", "limit-empties-live-block-only",
			"filter-match-returned", "reader-refreshed", "corruption-rejected-with-error", "corruption-not-noticed"},
	}}
}
