//go:build verif

package rpcsim

import (
	"context"
	"net/http"
	"time"

	"github.com/ethereum/go-ethereum/rpc"
)

// serveWhiteBox runs the real handler with subscriptions allowed and a
// connection context that carries an http.Server with the given WriteTimeout
// (see overlay/rpc/verif_rpcsim.go).
func serveWhiteBox(srv *rpc.Server, codec rpc.ServerCodec, writeTimeout time.Duration) {
	ctx := context.WithValue(context.Background(), http.ServerContextKey, &http.Server{WriteTimeout: writeTimeout})
	srv.VerifServeHandlerCtx(ctx, codec)
}
