// Package rpcsim decides C49: the JSON-RPC server answers every call exactly once.
//
// The real rpc.Server / handler / batchCallBuffer / Notifier run inside a
// testing/synctest bubble (virtual clock) without sockets, through three doors:
//
//	codec: Server.ServeCodec over rpc.NewCodec on an in-memory connection
//	       (persistent connection, subscriptions, several requests in flight,
//	       connection teardown with calls in flight; no request timeouts exist
//	       on this path in the tree);
//	http:  Server.ServeHTTP called directly with a recording ResponseWriter and
//	       a request context carrying an *http.Server whose WriteTimeout (and
//	       optionally a context deadline) the plan draws — the only public path
//	       on which ContextRequestTimeout arms the timeout timers;
//	wbox:  the handler driven through a white-box accessor with subscriptions
//	       allowed AND a timeout-carrying context. No public door composes these
//	       two; the generator never draws it, it exists for the hand-written
//	       latent-finding demonstration plan only.
//
// The plan is explicit: every message, every virtual instant and the schedule
// tape are in it, so a minimised plan replays without the generator.
package rpcsim

import (
	"encoding/json"
	"fmt"
	"strconv"

	"verifsim/simcore"
)

const (
	ms = int64(1000000)
)

// Entry is one JSON value inside a unit (a single message or a batch element).
type Entry struct {
	Name string `json:"name"` // unique token; also the argument that ties a response to this entry
	// Kind: call | notif (a call without id) | invalid | strayresp | straysub
	Kind string `json:"kind"`
	ID   string `json:"id,omitempty"` // raw JSON id text ("" = none)
	// Method (call/notif): echo fail large sleep block sub unsub nosuch badparams modules
	Method string `json:"method,omitempty"`
	N      int    `json:"n,omitempty"`      // large: result size; sub: notifications emitted by the emitter
	Pre    int    `json:"pre,omitempty"`    // sub: notifications issued inside the subscribe call (buffered by the Notifier)
	DurNS  int64  `json:"dur_ns,omitempty"` // sleep: virtual duration
	// RelNS (block, sub): absolute virtual instant (ns since run start) at which the method may
	// return; 0 = at once, <0 = only at the final release.
	RelNS int64 `json:"rel_ns,omitempty"`
	// EmitNS (sub): absolute virtual instant at which the emitter starts emitting.
	EmitNS int64  `json:"emit_ns,omitempty"`
	Ctx    bool   `json:"ctx,omitempty"`    // sleep/block: return early when the call context is cancelled
	Target string `json:"target,omitempty"` // unsub: Name of the subscribe entry whose id is used (looked up at send time)
	Tmpl   int    `json:"tmpl,omitempty"`   // invalid / strayresp: template number
}

// Unit is one top-level JSON value sent by the client.
type Unit struct {
	Batch   bool    `json:"batch,omitempty"`
	Entries []Entry `json:"entries"`
	AtNS    int64   `json:"at_ns"`          // codec: virtual instant at which feeding starts; http: request start
	Frag    []int   `json:"frag,omitempty"` // codec: fragment sizes fed one by one (rest in one piece)
	GapNS   int64   `json:"gap_ns,omitempty"`
	// http only
	WriteTimeoutMS int `json:"write_timeout_ms,omitempty"` // http.Server.WriteTimeout carried by the request context (0 = none)
	CtxTimeoutMS   int `json:"ctx_timeout_ms,omitempty"`   // deadline on the request context (0 = none)
	BadBody        int `json:"bad_body,omitempty"`         // http: 1 = syntactically broken body
	// CancelNS (http): absolute virtual instant at which the request context is cancelled from
	// outside (client went away / outer handler gave up); 0 = never. Unlike a deadline this
	// cancels the handler's contexts WITHOUT the handler's own timeout timer being due.
	CancelNS int64 `json:"cancel_ns,omitempty"`
}

type Plan struct {
	Door      string `json:"door"` // codec | http | wbox
	ItemLimit int    `json:"item_limit"`
	RespLimit int    `json:"resp_limit"`
	ReadCap   int    `json:"read_cap"` // max bytes returned by one Read of the connection / body (0 = unlimited)
	Units     []Unit `json:"units"`
	// End (codec/wbox): eof | stop | reset | garbage | truncated, at EndNS.
	End   string `json:"end,omitempty"`
	EndNS int64  `json:"end_ns,omitempty"`
	// wbox only: timeouts of the connection context
	WriteTimeoutMS int `json:"write_timeout_ms,omitempty"`
	// FinalNS: instant of the final release of everything still blocked.
	FinalNS int64    `json:"final_ns"`
	Tape    []uint16 `json:"tape"`
}

// ---- templates -------------------------------------------------------------------------------

// expectation of an entry: how many responses, carrying which id.
const (
	expNone = iota
	expID
	expNull
)

// invalid-entry templates: text (with %s = id) and whether the error entry carries the id.
var invalidTmpl = []struct {
	text  string
	useID bool
	exp   int
}{
	{`null`, false, expNull},
	{`1`, false, expNull},
	{`"str"`, false, expNull},
	{`{}`, false, expNull},
	{`{"id":%s}`, true, expID},
	{`{"jsonrpc":"1.0","id":%s,"method":"t_echo","params":["x"]}`, true, expID},
	{`{"jsonrpc":"2.0","id":%s}`, true, expID},
	{`{"jsonrpc":"2.0","id":{},"method":"t_echo","params":["x"]}`, false, expNull},
	{`{"jsonrpc":"2.0","id":[1],"method":"t_echo","params":["x"]}`, false, expNull},
	{`{"jsonrpc":"2.0","method":""}`, false, expNull},
	{`{"jsonrpc":"2.0","id":%s,"result":1,"params":[]}`, true, expID},
	{`{"id":%s,"result":1}`, true, expID},
	{`[]`, false, expNull},      // only used inside batches (a nested array is not a message)
	{`[[1,2]]`, false, expNull}, // only used inside batches
}

const nInvalidSingle = 12 // templates usable as a top-level (non-batch) message

var strayTmpl = []string{
	`{"jsonrpc":"2.0","id":%s,"result":"stray"}`,
	`{"jsonrpc":"2.0","id":%s,"error":{"code":-1,"message":"stray"}}`,
}

const straySub = `{"jsonrpc":"2.0","method":"t_subscription","params":{"subscription":"0xdead","result":1}}`

// entryText renders the JSON text of an entry. subID resolves the subscription id of a target
// at send time ("" = not known yet).
func entryText(e *Entry, subID func(name string) string) string {
	q := func(s string) string { b, _ := json.Marshal(s); return string(b) }
	idpart := ""
	if e.ID != "" {
		idpart = `"id":` + e.ID + `,`
	}
	switch e.Kind {
	case "invalid":
		t := invalidTmpl[e.Tmpl%len(invalidTmpl)]
		if t.useID {
			return fmt.Sprintf(t.text, e.ID)
		}
		return t.text
	case "strayresp":
		return fmt.Sprintf(strayTmpl[e.Tmpl%len(strayTmpl)], e.ID)
	case "straysub":
		return straySub
	}
	head := `{"jsonrpc":"2.0",` + idpart
	switch e.Method {
	case "echo":
		return head + `"method":"t_echo","params":[` + q(e.Name) + `]}`
	case "fail":
		return head + `"method":"t_fail","params":[` + q(e.Name) + `]}`
	case "large":
		return head + `"method":"t_large","params":[` + q(e.Name) + `,` + strconv.Itoa(e.N) + `]}`
	case "sleep":
		return head + `"method":"t_sleep","params":[` + q(e.Name) + `,` + strconv.FormatInt(e.DurNS, 10) + `,` + strconv.FormatBool(e.Ctx) + `]}`
	case "block":
		return head + `"method":"t_block","params":[` + q(e.Name) + `,` + strconv.FormatBool(e.Ctx) + `]}`
	case "sub":
		return head + `"method":"t_subscribe","params":["ev",` + q(e.Name) + `]}`
	case "unsub":
		id := subID(e.Target)
		if id == "" {
			id = "0xnone"
		}
		return head + `"method":"t_unsubscribe","params":[` + q(id) + `]}`
	case "nosuch":
		return head + `"method":"t_nosuch","params":[]}`
	case "badparams":
		return head + `"method":"t_echo","params":[1,2,3]}`
	case "modules":
		return head + `"method":"rpc_modules"}`
	case "sfxecho": // an EXISTING method whose name ends in _subscription
		return head + `"method":"t_subscription","params":[` + q(e.Name) + `]}`
	case "sfxnone": // a missing method (and service) whose name ends in _subscription
		return head + `"method":"x_subscription","params":[` + q(e.Name) + `]}`
	}
	return head + `"method":"t_nosuch"}`
}

func unitText(u *Unit, subID func(string) string) string {
	if u.BadBody != 0 {
		return `{"jsonrpc":"2.0",,"id":1}`
	}
	if !u.Batch {
		return entryText(&u.Entries[0], subID)
	}
	s := "["
	for i := range u.Entries {
		if i > 0 {
			s += ","
		}
		s += entryText(&u.Entries[i], subID)
	}
	return s + "]"
}

// expectation of one entry per the JSON-RPC rules the server documents: a call (version 2.0,
// id present and not an object/array, method) gets one response with its id; a notification
// none; a response / subscription notification none; anything else one error entry carrying
// the id when the id is usable, null otherwise.
func (e *Entry) expect() int {
	switch e.Kind {
	case "call":
		if e.ID == "" {
			return expNone
		}
		return expID
	case "notif", "strayresp", "straysub":
		return expNone
	case "invalid":
		return invalidTmpl[e.Tmpl%len(invalidTmpl)].exp
	}
	return expNone
}

func (e *Entry) isCall() bool { return e.Kind == "call" && e.ID != "" }

// runsMethod: the entry reaches a registered service method.
func (e *Entry) runsMethod() bool {
	if e.Kind != "call" && e.Kind != "notif" {
		return false
	}
	switch e.Method {
	case "echo", "fail", "large", "sleep", "block", "sub":
		return true
	case "sfxecho":
		// without an id it is taken for a subscription notification and dropped
		return e.Kind == "call"
	}
	return false
}

// ---- generation ------------------------------------------------------------------------------

type gen struct {
	r      *simcore.Rand
	p      *Plan
	nextID int
	subs   []string // names of subscribe entries generated so far (with an id)
	seq    int
}

func (g *gen) name() string { g.seq++; return "e" + strconv.Itoa(g.seq) }

// id draws a raw JSON id; unit-unique unless dup asks for a repeat of prev.
func (g *gen) id(unit int) string {
	g.nextID++
	n := unit*100 + g.nextID%100
	switch g.r.Pick(10, 4, 1, 1, 1) {
	case 0:
		return strconv.Itoa(n)
	case 1:
		return `"s` + strconv.Itoa(n) + `"`
	case 2:
		return strconv.Itoa(n) + ".5"
	case 3:
		return "-" + strconv.Itoa(n)
	default:
		return `"ié ` + strconv.Itoa(n) + `"`
	}
}

func pickTime(r *simcore.Rand, lo, hi int64) int64 {
	// multiples of 10 ms so that instants collide and the tape decides
	n := int((hi - lo) / (10 * ms))
	return lo + int64(r.Intn(n+1))*10*ms
}

func (g *gen) entry(unit int, inBatch bool, http bool, base, deadline int64) Entry {
	r := g.r
	e := Entry{Name: g.name()}
	k := r.Pick(60, 10, 14, 5, 3)
	switch k {
	case 0:
		e.Kind = "call"
		e.ID = g.id(unit)
	case 1:
		e.Kind = "notif"
	case 2:
		e.Kind = "invalid"
		if inBatch {
			e.Tmpl = r.Intn(len(invalidTmpl))
		} else {
			e.Tmpl = r.Intn(nInvalidSingle)
		}
		e.ID = g.id(unit)
		return e
	case 3:
		e.Kind = "strayresp"
		e.Tmpl = r.Intn(len(strayTmpl))
		e.ID = g.id(unit)
		return e
	default:
		e.Kind = "straysub"
		return e
	}
	// exotic: a call whose id is JSON null is a call for the server (valid id, response id null)
	if e.Kind == "call" && r.Bool(0.03) {
		e.ID = "null"
	}
	near := func() int64 {
		// instants around the deadline (http) or anywhere in the run (codec)
		if deadline > 0 {
			switch r.Pick(3, 2, 2, 2, 3, 2) {
			case 0:
				return pickTime(r, base, deadline-10*ms)
			case 1:
				return deadline - 1
			case 2:
				return deadline
			case 3:
				return deadline + 1
			case 4:
				return deadline + int64(r.Range(1, 30))*10*ms
			default:
				return -1
			}
		}
		if r.Bool(0.12) {
			return -1
		}
		return pickTime(r, base, base+200*ms)
	}
	m := r.Pick(22, 8, 8, 14, 22, 14, 4, 3, 3, 2, 3, 2)
	if http && m == 5 && r.Bool(0.6) {
		m = 4 // subscriptions are refused on http; keep a few
	}
	switch m {
	case 0:
		e.Method = "echo"
	case 1:
		e.Method = "fail"
	case 2:
		e.Method = "large"
		e.N = []int{0, 1, 40, 200, 1000, 5000}[r.Intn(6)]
	case 3:
		e.Method = "sleep"
		e.Ctx = r.Bool(0.4)
		if deadline > 0 {
			rel := near()
			if rel < 0 {
				rel = deadline + 500*ms
			}
			// duration counted from the moment the method starts, which for a first call is
			// the request start; an exact hit on the deadline is the perturbed same-instant race
			e.DurNS = rel - base
			if e.DurNS < 0 {
				e.DurNS = 0
			}
		} else {
			e.DurNS = int64(r.Intn(8)) * 10 * ms
		}
	case 4:
		e.Method = "block"
		e.Ctx = r.Bool(0.35)
		e.RelNS = near()
	case 5:
		e.Method = "sub"
		e.N = r.Intn(4)
		e.Pre = r.Intn(3)
		if r.Bool(0.25) {
			e.RelNS = near()
		}
		e.EmitNS = pickTime(r, base, base+250*ms)
		if e.Kind == "call" {
			g.subs = append(g.subs, e.Name)
		}
	case 6:
		e.Method = "unsub"
		if len(g.subs) > 0 {
			e.Target = g.subs[r.Intn(len(g.subs))]
		}
	case 7:
		e.Method = "nosuch"
	case 8:
		e.Method = "badparams"
	case 9:
		e.Method = "modules"
	case 10:
		e.Method = "sfxecho"
	default:
		e.Method = "sfxnone"
	}
	return e
}

func (g *gen) unit(idx int, http bool, base, deadline int64) Unit {
	r := g.r
	u := Unit{AtNS: base}
	if r.Bool(0.45) {
		u.Batch = true
		n := r.Pick(1, 3, 6, 6, 4, 3, 2, 1, 1) // 0..8 entries; 0 = empty batch
		for i := 0; i < n; i++ {
			u.Entries = append(u.Entries, g.entry(idx, true, http, base, deadline))
		}
		// duplicate ids inside the batch
		if n >= 2 && r.Bool(0.2) {
			a, b := r.Intn(n), r.Intn(n)
			if a != b && u.Entries[a].ID != "" && u.Entries[b].ID != "" && u.Entries[b].Kind != "strayresp" {
				u.Entries[b].ID = u.Entries[a].ID
			}
		}
	} else {
		u.Entries = []Entry{g.entry(idx, false, http, base, deadline)}
	}
	return u
}

func Gen(r *simcore.Rand, tier string) any {
	p := &Plan{}
	g := &gen{r: r, p: p}
	if r.Bool(0.5) {
		p.Door = "codec"
	} else {
		p.Door = "http"
	}
	p.ItemLimit = []int{0, 0, 1, 2, 3, 5, 100}[r.Intn(7)]
	p.RespLimit = []int{0, 0, 0, 30, 150, 600, 3000}[r.Intn(7)]
	p.ReadCap = []int{0, 0, 1, 3, 17, 64}[r.Intn(6)]
	if p.Door == "codec" {
		nu := r.Range(1, 6)
		var dupPool []string
		for i := 0; i < nu; i++ {
			base := int64(r.Intn(10)) * 10 * ms
			u := g.unit(i+1, false, base, 0)
			if len(p.Units) > 0 && u.AtNS < p.Units[len(p.Units)-1].AtNS {
				u.AtNS = p.Units[len(p.Units)-1].AtNS
			}
			// duplicate ids across single calls
			if !u.Batch && u.Entries[0].Kind == "call" {
				if len(dupPool) > 0 && r.Bool(0.15) {
					u.Entries[0].ID = dupPool[r.Intn(len(dupPool))]
				} else if u.Entries[0].ID != "null" {
					dupPool = append(dupPool, u.Entries[0].ID)
				}
			}
			if r.Bool(0.4) {
				nf := r.Range(1, 4)
				for j := 0; j < nf; j++ {
					u.Frag = append(u.Frag, r.Range(1, 40))
				}
				u.GapNS = int64(r.Intn(3)) * 10 * ms
			}
			p.Units = append(p.Units, u)
		}
		// a small fraction of runs: one subscription issues 40k-56k notifications inside the
		// subscribe call, i.e. while its response cannot have been written yet
		if r.Bool(0.006) {
			var cand []*Entry
			for ui := range p.Units {
				for ei := range p.Units[ui].Entries {
					if e := &p.Units[ui].Entries[ei]; e.Kind == "call" && e.Method == "sub" {
						cand = append(cand, e)
					}
				}
			}
			if len(cand) == 0 {
				u := Unit{AtNS: p.Units[len(p.Units)-1].AtNS, Entries: []Entry{{Name: g.name(), Kind: "call", ID: g.id(len(p.Units) + 1), Method: "sub", N: r.Intn(3), EmitNS: int64(r.Intn(20)) * 10 * ms}}}
				p.Units = append(p.Units, u)
				cand = append(cand, &p.Units[len(p.Units)-1].Entries[0])
			}
			cand[r.Intn(len(cand))].Pre = 40000 + r.Intn(16001)
		}
		p.End = []string{"eof", "eof", "eof", "stop", "stop", "reset", "garbage", "truncated"}[r.Intn(8)]
		p.EndNS = int64(r.Intn(40)) * 10 * ms
		p.FinalNS = 600 * ms
	} else {
		nu := r.Range(1, 2)
		var maxDl int64
		for i := 0; i < nu; i++ {
			base := int64(r.Intn(4)) * 10 * ms
			wt := []int{0, 200, 300, 1000, 1500}[r.Intn(5)]
			ct := 0
			if r.Bool(0.2) {
				ct = []int{50, 100, 200, 900, 2000}[r.Intn(5)]
			}
			var deadline int64
			if wt > 0 {
				deadline = base + int64(wt)*ms - 100*ms
			}
			if ct > 0 && (deadline == 0 || base+int64(ct)*ms < deadline) {
				deadline = base + int64(ct)*ms
			}
			u := g.unit(i+1, true, base, deadline)
			u.WriteTimeoutMS, u.CtxTimeoutMS = wt, ct
			if r.Bool(0.04) {
				u.BadBody = 1
			}
			if r.Bool(0.3) {
				switch {
				case deadline > 0 && r.Bool(0.5):
					u.CancelNS = pickTime(r, base, deadline)
					if u.CancelNS == base {
						u.CancelNS = base + 1
					}
				default:
					u.CancelNS = base + 1 + int64(r.Intn(30))*10*ms
				}
			}
			if deadline > maxDl {
				maxDl = deadline
			}
			p.Units = append(p.Units, u)
		}
		p.FinalNS = maxDl + 3000*ms
	}
	p.Tape = r.Tape(120)
	return p
}

func Decode(b []byte) (any, error) {
	p := &Plan{}
	err := json.Unmarshal(b, p)
	return p, err
}

func clonePlan(p *Plan) *Plan {
	b, _ := json.Marshal(p)
	q := &Plan{}
	json.Unmarshal(b, q)
	return q
}

func Shrink(pl any) []any {
	p := pl.(*Plan)
	var out []any
	if len(p.Units) > 1 {
		for _, us := range simcore.ShrinkSlice(p.Units) {
			if len(us) == 0 {
				continue
			}
			q := clonePlan(p)
			q.Units = append([]Unit{}, us...)
			out = append(out, q)
		}
	}
	for i := range p.Units {
		u := &p.Units[i]
		if u.Batch && len(u.Entries) > 0 {
			for _, es := range simcore.ShrinkSlice(u.Entries) {
				q := clonePlan(p)
				q.Units[i].Entries = append([]Entry{}, es...)
				out = append(out, q)
			}
			if len(u.Entries) == 1 {
				q := clonePlan(p)
				q.Units[i].Batch = false
				out = append(out, q)
			}
		}
		if len(u.Frag) > 0 {
			q := clonePlan(p)
			q.Units[i].Frag, q.Units[i].GapNS = nil, 0
			out = append(out, q)
		}
		if u.CtxTimeoutMS != 0 {
			q := clonePlan(p)
			q.Units[i].CtxTimeoutMS = 0
			out = append(out, q)
		}
		if u.CancelNS != 0 {
			q := clonePlan(p)
			q.Units[i].CancelNS = 0
			out = append(out, q)
		}
		for j := range u.Entries {
			e := &u.Entries[j]
			if e.runsMethod() && e.Method != "echo" && e.Method != "sub" {
				q := clonePlan(p)
				qe := &q.Units[i].Entries[j]
				qe.Method, qe.N, qe.DurNS, qe.RelNS, qe.Ctx = "echo", 0, 0, 0, false
				out = append(out, q)
			}
			if e.Method == "sub" && e.Pre > 16 {
				// big cuts first; one by one only below 16
				for _, np := range []int{0, e.Pre / 2, e.Pre * 3 / 4, e.Pre - 1000, e.Pre - 100, e.Pre - 10, e.Pre - 1} {
					if np >= 0 && np < e.Pre {
						q := clonePlan(p)
						q.Units[i].Entries[j].Pre = np
						out = append(out, q)
					}
				}
			}
			if e.Method == "sub" && (e.N > 0 || (e.Pre > 0 && e.Pre <= 16)) {
				q := clonePlan(p)
				qe := &q.Units[i].Entries[j]
				if qe.N > 0 {
					qe.N--
				} else {
					qe.Pre--
				}
				out = append(out, q)
			}
			if e.Ctx {
				q := clonePlan(p)
				q.Units[i].Entries[j].Ctx = false
				out = append(out, q)
			}
		}
	}
	if p.ItemLimit != 0 {
		q := clonePlan(p)
		q.ItemLimit = 0
		out = append(out, q)
	}
	if p.RespLimit != 0 {
		q := clonePlan(p)
		q.RespLimit = 0
		out = append(out, q)
	}
	if p.ReadCap != 0 {
		q := clonePlan(p)
		q.ReadCap = 0
		out = append(out, q)
	}
	if p.End != "" && p.End != "eof" {
		q := clonePlan(p)
		q.End = "eof"
		out = append(out, q)
	}
	for _, t := range simcore.ShrinkTape(p.Tape) {
		q := clonePlan(p)
		q.Tape = t
		out = append(out, q)
	}
	return out
}
