package rpcsim

import (
	"context"
	"sort"
	"strings"
	"sync"
	"time"

	"github.com/ethereum/go-ethereum/rpc"

	"verifsim/simsched"
)

// world is the per-run state shared by the scheduler-owned test service, the
// harness actors and the oracle.
type world struct {
	p     *Plan
	sched *simsched.Sched
	start time.Time

	entries map[string]*Entry
	unitOf  map[string]int
	rel     map[string]chan struct{} // release channels of entries with RelNS != 0

	mu        sync.Mutex
	relDone   map[string]bool
	invoked   map[string]int
	invLog    []string          // method entries in release order
	returned  map[string]int64  // virtual instant at which the method returned (method-running entries)
	subIDs    map[string]string // subscribe entry name -> subscription id created by the server
	notified  map[string]int    // Notify calls issued per subscription (service side)
	racy      map[int]bool      // units in which a same-instant timeout/return race was armed
	timerAt   map[int]int64     // unit -> instant at which the handler's timeout timer fires (0 = none)
	cancelled map[int]int64     // unit -> instant at which its request context was cancelled from outside
	emitters  sync.WaitGroup
}

func newWorld(p *Plan, start time.Time) *world {
	w := &world{p: p, start: start, entries: map[string]*Entry{}, unitOf: map[string]int{}, rel: map[string]chan struct{}{},
		relDone: map[string]bool{}, invoked: map[string]int{}, returned: map[string]int64{}, subIDs: map[string]string{},
		notified: map[string]int{}, racy: map[int]bool{}, timerAt: map[int]int64{}, cancelled: map[int]int64{}}
	for ui := range p.Units {
		u := &p.Units[ui]
		for ei := range u.Entries {
			e := &u.Entries[ei]
			w.entries[e.Name] = e
			w.unitOf[e.Name] = ui
			if e.RelNS != 0 && (e.Method == "block" || e.Method == "sub") {
				w.rel[e.Name] = make(chan struct{})
			}
		}
		var t int64
		wt := u.WriteTimeoutMS
		if p.Door == "wbox" {
			wt = p.WriteTimeoutMS
		}
		if wt > 0 {
			t = int64(wt)*ms - 100*ms
		}
		if u.CtxTimeoutMS > 0 && (t == 0 || int64(u.CtxTimeoutMS)*ms < t) {
			t = int64(u.CtxTimeoutMS) * ms
		}
		if t > 0 && p.Door == "http" {
			w.timerAt[ui] = u.AtNS + t
		}
		// the context's own deadline timer and the handler's timeout timer fire at the same
		// instant: who runs first is not decided by the simulator
		if p.Door == "http" && u.CtxTimeoutMS > 0 && t == int64(u.CtxTimeoutMS)*ms {
			w.racy[ui] = true
		}
	}
	return w
}

func (w *world) now() int64 { return int64(time.Since(w.start)) }

func (w *world) sleepUntil(at int64) {
	if d := at - w.now(); d > 0 {
		time.Sleep(time.Duration(d))
	}
}

func (w *world) release(name string) {
	w.mu.Lock()
	ch := w.rel[name]
	done := w.relDone[name]
	w.relDone[name] = true
	w.mu.Unlock()
	if ch != nil && !done {
		close(ch)
	}
}

func (w *world) releaseAll() {
	names := make([]string, 0, len(w.rel))
	for n := range w.rel {
		names = append(names, n)
	}
	sort.Strings(names)
	for _, n := range names {
		w.release(n)
	}
}

// enter is the gated entry of every service method.
func (w *world) enter(name string) {
	w.sched.Gate("m:" + name)
	w.mu.Lock()
	w.invoked[name]++
	w.invLog = append(w.invLog, name)
	w.mu.Unlock()
}

func (w *world) leave(name string) {
	w.mu.Lock()
	w.returned[name] = w.now()
	w.mu.Unlock()
}

// svcError is the error returned by t_fail (custom code so that it cannot be
// mistaken for a server-generated error).
type svcError struct{ name string }

func (e *svcError) Error() string  { return "fail:" + e.name }
func (e *svcError) ErrorCode() int { return 77 }

type svc struct{ w *world }

func (s *svc) Echo(name string) string {
	s.w.enter(name)
	defer s.w.leave(name)
	return name
}

// Subscription is an ordinary method whose wire name, t_subscription, happens to end in the
// suffix the server uses for subscription notifications.
func (s *svc) Subscription(name string) string {
	s.w.enter(name)
	defer s.w.leave(name)
	return name
}

func (s *svc) Fail(name string) error {
	s.w.enter(name)
	defer s.w.leave(name)
	return &svcError{name}
}

func largeResult(name string, n int) string {
	if n <= len(name) {
		return name[:n]
	}
	return name + strings.Repeat("x", n-len(name))
}

func (s *svc) Large(name string, n int) string {
	s.w.enter(name)
	defer s.w.leave(name)
	return largeResult(name, n)
}

func (s *svc) Sleep(ctx context.Context, name string, ns int64, honour bool) (string, error) {
	w := s.w
	w.enter(name)
	defer w.leave(name)
	if ns <= 0 {
		return name, nil
	}
	if ui, ok := w.unitOf[name]; ok {
		if at := w.timerAt[ui]; at != 0 && w.now()+ns == at {
			w.mu.Lock()
			w.racy[ui] = true
			w.mu.Unlock()
		}
	}
	// Without request timeouts (codec door) the wake-up is a gate, so that the order in which
	// several sleepers ending at the same instant answer is the tape's. Where a timeout can
	// fire (http) the wake-up is deliberately NOT gated: a sleep ending exactly at the
	// deadline is the genuine same-instant race between the timeout and the return.
	wake := func() {
		if w.p.Door == "codec" {
			w.sched.Gate("wake:" + name)
		}
	}
	if !honour {
		time.Sleep(time.Duration(ns))
		wake()
		return name, nil
	}
	t := time.NewTimer(time.Duration(ns))
	defer t.Stop()
	select {
	case <-t.C:
		wake()
		return name, nil
	case <-ctx.Done():
		w.wokenByCancel(name)
		return "", ctx.Err()
	}
}

// wokenByCancel: a context-honouring method returns because the call context was cancelled;
// when that is the request timeout's own cancel(), its return races with the timeout write.
func (w *world) wokenByCancel(name string) {
	ui := w.unitOf[name]
	w.mu.Lock()
	// A planned outside cancellation goes through a gate (everything else is quiescent when it
	// happens): decided. Only a wake-up at the instant the handler's own timer is due races.
	if at := w.timerAt[ui]; at != 0 && w.now() == at {
		w.racy[ui] = true
	}
	w.mu.Unlock()
}

func (s *svc) Block(ctx context.Context, name string, honour bool) (string, error) {
	w := s.w
	w.enter(name)
	defer w.leave(name)
	ch := w.rel[name]
	if ch == nil {
		return name, nil
	}
	if !honour {
		<-ch
		return name, nil
	}
	select {
	case <-ch:
		return name, nil
	case <-ctx.Done():
		w.wokenByCancel(name)
		return "", ctx.Err()
	}
}

type evPayload struct {
	Name  string `json:"name"`
	Phase string `json:"phase"`
	I     int    `json:"i"`
}

// Ev is the t_subscribe("ev", name) subscription.
func (s *svc) Ev(ctx context.Context, name string) (*rpc.Subscription, error) {
	w := s.w
	w.enter(name)
	defer w.leave(name)
	n, ok := rpc.NotifierFromContext(ctx)
	if !ok {
		return nil, rpc.ErrNotificationsUnsupported
	}
	e := w.entries[name]
	if e == nil {
		return nil, &svcError{"unknown subscription entry " + name}
	}
	sub := n.CreateSubscription()
	w.mu.Lock()
	w.subIDs[name] = string(sub.ID)
	w.mu.Unlock()
	for i := 0; i < e.Pre; i++ {
		w.mu.Lock()
		w.notified[name]++
		w.mu.Unlock()
		n.Notify(sub.ID, evPayload{name, "pre", i})
	}
	w.emitters.Add(1)
	go func() {
		defer w.emitters.Done()
		w.sleepUntil(e.EmitNS)
		for i := 0; i < e.N; i++ {
			w.sched.Gate("emit:" + name + ":" + string(rune('0'+i)))
			select {
			case <-sub.Err():
				return
			default:
			}
			w.mu.Lock()
			w.notified[name]++
			w.mu.Unlock()
			if err := n.Notify(sub.ID, evPayload{name, "ev", i}); err != nil {
				return
			}
		}
	}()
	if ch := w.rel[name]; ch != nil {
		<-ch
	}
	return sub, nil
}
