package rpcsim

import (
	"verifsim/simcore"
)

func Checks() map[string]*simcore.Check {
	return map[string]*simcore.Check{"C49": {
		ID: "C49", Engine: "rpcsim", Level: "exploration",
		Rule: "plans = door (ServeCodec over an in-memory connection | ServeHTTP with recorder) x batch item/response-size limits x read fragmentation x 1-6 units " +
			"(single messages and batches of 0-8 entries: calls to echo/fail/large/sleep/block/subscribe/unsubscribe/unknown/bad-params methods and existing/missing methods named *_subscription, notifications, 14 kinds of invalid entries, " +
			"stray responses and subscription notifications, duplicate and exotic ids) x virtual instants of every feed, release, emission and teardown (eof/stop/reset/garbage/truncated) " +
			"x http WriteTimeout / context deadline with releases just before, at, just after and long after the deadline x outside cancellation of the request context at a planned instant; every feed, method entry, release and notification emission is a gate released by the plan's tape. " +
			"Non-trivial = the scheduler had a real choice at >=2 steps or a request timeout fired; distinct = distinct (released-gate sequence, response-class sequence) fingerprints.",
		Assumptions: []string{
			"a batch over the item limit is answered, as the code documents, with one array holding one invalid-request error carrying the first call's id (the other calls get nothing); an empty batch with one error object; a batch made only of responses with nothing",
			"after Server.Stop or a read error with calls in flight only the at-most-once half is judged (writes to the closed connection are rejected by the connection, so nothing can reach the wire after close by construction)",
			"the same-instant race between a firing timeout and a returning method (sleep ending exactly at the deadline, context-honouring methods woken by the timeout's own cancel) is decided by the Go scheduler: explored by seeds x GOMAXPROCS only; either single answer is accepted",
			"the deadline clause uses the http.Server WriteTimeout / context deadline itself (not geth's internal 100 ms head start) as the bound, plus 1 ms",
		},
		Components: simcore.Components{
			Real: []string{"rpc.Server (ServeCodec, ServeHTTP, serveSingleRequest, Stop)", "rpc.Client dispatch/read loop behind ServeCodec", "rpc handler (handleMsg, handleBatch, handleNonBatchCall, handleSubscribe, close)", "rpc batchCallBuffer", "rpc.Notifier / Subscription", "rpc jsonCodec (NewCodec, httpServerConn) and message parsing", "rpc service registry / reflection callbacks", "ContextRequestTimeout"},
			Stub: []string{"connection (in-memory rpc.Conn with planned fragmentation, short reads, eof/reset)", "http.ResponseWriter (recorder) and request body", "test service methods (scheduler-owned)", "clock (synctest bubble)", "client (scripted bytes; learns subscription ids from the wire)"},
		},
		Perturbed: []string{"winner of a timeout firing at the same virtual instant as the method's return (handler sync.Once / batchCallBuffer mutex entry order)", "order of codec writes between two goroutines released by one event (serialised by jsonCodec.encMu, no gate inside geth)", "select choice in Client.dispatch between close and read error on Server.Stop"},
		Runs:      map[string]int{"quick": 32000, "thorough": 600000},
		Gen:       Gen, Decode: Decode, Run: Run, Shrink: Shrink,
		ProbeNames: []string{"timeout-fired-while-method-running", "same-instant-timeout-vs-return", "batch-too-large", "resp-too-large", "notify-after-response",
			"call-in-flight-at-teardown", "write-rejected-after-close", "duplicate-id-in-batch", "parse-error", "answered-by-deadline", "unanswered-at-teardown", "idless-subscribe", "cancelled-while-method-running", "cancelled-with-batch-calls-unstarted", "bulk-in-call-notifications", "call-named-like-subscription-notification"},
	}}
}
