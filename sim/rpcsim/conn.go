package rpcsim

import (
	"errors"
	"io"
	"net/http"
	"sync"
	"time"
)

// wrec is one successful Write on the server side of the connection.
type wrec struct {
	off, n int
	at     int64 // virtual ns since run start
}

// simConn is the server's end of an in-memory connection (rpc.Conn). The client
// side is the harness: feed() appends bytes the server will read, the bytes the
// server writes are recorded with their virtual time. Reads block durably (on a
// bubble channel) while nothing is available; writes never block.
type simConn struct {
	mu       sync.Mutex
	start    time.Time
	in       []byte
	inErr    error // returned by Read once `in` is drained (io.EOF = clean half-close)
	sig      chan struct{}
	readCap  int
	closed   bool
	closedAt int64
	out      []byte
	writes   []wrec
	late     int // write attempts after Close (rejected, nothing reaches the wire)
	reads    int
	short    int // reads cut short by readCap
}

func newSimConn(start time.Time, readCap int) *simConn {
	return &simConn{start: start, readCap: readCap, sig: make(chan struct{}, 1), closedAt: -1}
}

func (c *simConn) poke() {
	select {
	case c.sig <- struct{}{}:
	default:
	}
}

func (c *simConn) feed(b []byte) {
	c.mu.Lock()
	c.in = append(c.in, b...)
	c.mu.Unlock()
	c.poke()
}

func (c *simConn) endInput(err error) {
	c.mu.Lock()
	c.inErr = err
	c.mu.Unlock()
	c.poke()
}

func (c *simConn) Read(p []byte) (int, error) {
	for {
		c.mu.Lock()
		if c.closed {
			c.mu.Unlock()
			return 0, io.ErrClosedPipe
		}
		if len(c.in) > 0 {
			n := len(p)
			if n > len(c.in) {
				n = len(c.in)
			}
			if c.readCap > 0 && n > c.readCap {
				n = c.readCap
				c.short++
			}
			copy(p, c.in[:n])
			c.in = c.in[n:]
			c.reads++
			more := len(c.in) > 0
			c.mu.Unlock()
			if more {
				c.poke()
			}
			return n, nil
		}
		if c.inErr != nil {
			err := c.inErr
			c.mu.Unlock()
			return 0, err
		}
		c.mu.Unlock()
		<-c.sig
	}
}

func (c *simConn) Write(p []byte) (int, error) {
	c.mu.Lock()
	defer c.mu.Unlock()
	if c.closed {
		c.late++
		return 0, io.ErrClosedPipe
	}
	c.writes = append(c.writes, wrec{off: len(c.out), n: len(p), at: int64(time.Since(c.start))})
	c.out = append(c.out, p...)
	return len(p), nil
}

func (c *simConn) Close() error {
	c.mu.Lock()
	if !c.closed {
		c.closed = true
		c.closedAt = int64(time.Since(c.start))
	}
	c.mu.Unlock()
	c.poke()
	return nil
}

func (c *simConn) SetWriteDeadline(time.Time) error { return nil }

func (c *simConn) snapshot() []byte {
	c.mu.Lock()
	defer c.mu.Unlock()
	return append([]byte{}, c.out...)
}

// resetError is a non-EOF, non-timeout read error.
var errReset = errors.New("connection reset by peer (simulated)")

// ---- http ------------------------------------------------------------------------------------

// recWriter is the recording http.ResponseWriter (also a Flusher).
type recWriter struct {
	mu      sync.Mutex
	start   time.Time
	hdr     http.Header
	status  int
	out     []byte
	writes  []wrec
	flushes int
	// header snapshot at the first write
	firstCL string
}

func newRecWriter(start time.Time) *recWriter {
	return &recWriter{start: start, hdr: http.Header{}}
}

func (w *recWriter) Header() http.Header { return w.hdr }
func (w *recWriter) WriteHeader(code int) {
	w.mu.Lock()
	if w.status == 0 {
		w.status = code
	}
	w.mu.Unlock()
}
func (w *recWriter) Write(p []byte) (int, error) {
	w.mu.Lock()
	defer w.mu.Unlock()
	if w.status == 0 {
		w.status = 200
	}
	if len(w.writes) == 0 {
		w.firstCL = w.hdr.Get("content-length")
	}
	w.writes = append(w.writes, wrec{off: len(w.out), n: len(p), at: int64(time.Since(w.start))})
	w.out = append(w.out, p...)
	return len(p), nil
}
func (w *recWriter) Flush() {
	w.mu.Lock()
	w.flushes++
	w.mu.Unlock()
}

// capReader returns at most cap bytes per Read.
type capReader struct {
	b   []byte
	cap int
}

func (r *capReader) Read(p []byte) (int, error) {
	if len(r.b) == 0 {
		return 0, io.EOF
	}
	n := len(p)
	if n > len(r.b) {
		n = len(r.b)
	}
	if r.cap > 0 && n > r.cap {
		n = r.cap
	}
	copy(p, r.b[:n])
	r.b = r.b[n:]
	return n, nil
}
func (r *capReader) Close() error { return nil }
