package rpcsim

import (
	"bytes"
	"encoding/json"
	"fmt"
	"sort"
	"strings"

	"verifsim/simcore"
)

// Keys of findings on the unchanged tree (see NOTES.md).
const (
	keyIdlessSubscribe  = "notify-without-response:idless-subscribe"
	keyTimedOutSub      = "notify-without-response:subscribe-timed-out(white-box)"
	keyNotifTimeout     = "response-to-notification:timeout-nonbatch"
	keyBatchPartial     = "missing-response:batch-partial-reply-after-cancel"
	oracleNotifyNoResp  = "notify-without-response"
	oracleNotifyEarly   = "notify-before-response"
	oracleDupResponse   = "duplicate-response"
	oracleMissing       = "missing-response"
	oracleUnexpected    = "unexpected-response"
	oracleBatchTwice    = "batch-reply-twice"
	oracleBatchShape    = "batch-reply-shape"
	oracleMalformed     = "malformed-output"
	oracleLate          = "answered-after-deadline"
	oracleContent       = "response-content"
	oracleAfterClose    = "write-after-close"
	oracleNotifResponse = "response-to-notification"
)

// robj is one JSON object written by the server.
type robj struct {
	Version string          `json:"jsonrpc"`
	ID      json.RawMessage `json:"id"`
	Method  string          `json:"method"`
	Params  json.RawMessage `json:"params"`
	Error   *struct {
		Code    int    `json:"code"`
		Message string `json:"message"`
	} `json:"error"`
	Result json.RawMessage `json:"result"`
}

func (r *robj) id() string {
	if r.ID == nil {
		return ""
	}
	if t := bytes.TrimSpace(r.ID); len(t) > 0 && (t[0] == '{' || t[0] == '[') && r.Error != nil {
		// an error entry echoing an unusable (object/array) id: the tree does this on the
		// timeout / response-too-large path where the normal path writes null. Counted as null.
		return "null"
	}
	var b bytes.Buffer
	if json.Compact(&b, r.ID) != nil {
		return string(r.ID)
	}
	return b.String()
}

type frame struct {
	// repeat: a further notification of a subscription whose first notification frame was
	// already decoded in full (fast path, the value has still been syntax-checked)
	repeat  bool
	off     int
	at      int64
	isArray bool
	objs    []*robj // array elements, or the single object
	raw     []byte
}

// exact head of a subscription notification as the tree's encoder writes it
var notifPrefix = []byte(`{"jsonrpc":"2.0","method":"t_subscription","params":{"subscription":"`)

// parseStream decodes the concatenation of everything written as a sequence of JSON values.
func parseStream(out []byte, writes []wrec) ([]*frame, error) {
	dec := json.NewDecoder(bytes.NewReader(out))
	dec.UseNumber()
	var frames []*frame
	wi := 0
	seenNotif := map[string]bool{}
	for {
		startOff := int(dec.InputOffset())
		var raw json.RawMessage
		if err := dec.Decode(&raw); err != nil {
			if err.Error() == "EOF" {
				return frames, nil
			}
			return frames, fmt.Errorf("output is not a sequence of JSON values at byte %d: %v", startOff, err)
		}
		// first non-space byte of the value
		off := startOff
		for off < len(out) && (out[off] == ' ' || out[off] == '\n' || out[off] == '\t' || out[off] == '\r') {
			off++
		}
		f := &frame{off: off, raw: raw, at: -1}
		for wi < len(writes) && off >= writes[wi].off+writes[wi].n {
			wi++
		}
		if wi < len(writes) && off >= writes[wi].off {
			f.at = writes[wi].at
		}
		trim := bytes.TrimSpace(raw)
		if bytes.HasPrefix(trim, notifPrefix) {
			rest := trim[len(notifPrefix):]
			if q := bytes.IndexByte(rest, '"'); q > 0 {
				id := string(rest[:q])
				if seenNotif[id] {
					f.repeat = true
					frames = append(frames, f)
					continue
				}
				seenNotif[id] = true
			}
		}
		switch {
		case len(trim) > 0 && trim[0] == '[':
			f.isArray = true
			var elems []json.RawMessage
			if err := json.Unmarshal(trim, &elems); err != nil {
				return frames, fmt.Errorf("bad array at byte %d: %v", off, err)
			}
			for _, el := range elems {
				o := &robj{}
				if err := json.Unmarshal(el, o); err != nil {
					return frames, fmt.Errorf("batch reply element is not an object at byte %d: %s", off, el)
				}
				f.objs = append(f.objs, o)
			}
		case len(trim) > 0 && trim[0] == '{':
			o := &robj{}
			if err := json.Unmarshal(trim, o); err != nil {
				return frames, fmt.Errorf("bad object at byte %d: %v", off, err)
			}
			f.objs = []*robj{o}
		default:
			return frames, fmt.Errorf("top-level value at byte %d is neither object nor array: %s", off, trim)
		}
		frames = append(frames, f)
	}
}

func allNull(ids []string) bool {
	for _, id := range ids {
		if id != "null" {
			return false
		}
	}
	return true
}

func sig(ids []string) string {
	s := append([]string{}, ids...)
	sort.Strings(s)
	return strings.Join(s, "\x00")
}

// unitExpect is the reference expectation for one unit.
type unitExpect struct {
	single    bool   // one top-level object expected
	singleID  string // its id ("null" for null)
	batchIDs  []string
	tooLarge  bool
	noReply   bool
	deadline  int64 // http: absolute instant by which the reply must have been written (0 = none)
	hasTimer  bool
	entryByID map[string][]*Entry
}

func expectUnit(p *Plan, u *Unit) *unitExpect {
	x := &unitExpect{entryByID: map[string][]*Entry{}}
	if u.BadBody != 0 {
		x.single, x.singleID = true, "null"
		return x
	}
	idOf := func(e *Entry) string {
		switch e.expect() {
		case expID:
			var b bytes.Buffer
			if json.Compact(&b, []byte(e.ID)) == nil {
				return b.String()
			}
			return e.ID
		case expNull:
			return "null"
		}
		return ""
	}
	if !u.Batch {
		e := &u.Entries[0]
		id := idOf(e)
		if id == "" {
			x.noReply = true
			return x
		}
		x.single, x.singleID = true, id
		x.entryByID[id] = append(x.entryByID[id], e)
		return x
	}
	if len(u.Entries) == 0 {
		x.single, x.singleID = true, "null" // "empty batch" error object
		return x
	}
	if p.ItemLimit > 0 && len(u.Entries) > p.ItemLimit {
		x.tooLarge = true
		id := "null"
		for i := range u.Entries {
			if u.Entries[i].isCall() {
				id = idOf(&u.Entries[i])
				break
			}
		}
		x.batchIDs = []string{id}
		return x
	}
	// a batch made only of responses is consumed silently
	for i := range u.Entries {
		e := &u.Entries[i]
		if id := idOf(e); id != "" {
			x.batchIDs = append(x.batchIDs, id)
			x.entryByID[id] = append(x.entryByID[id], e)
		}
	}
	if len(x.batchIDs) == 0 {
		x.noReply = true
	}
	return x
}

func viol(oracle, key, format string, a ...any) *simcore.Violation {
	return &simcore.Violation{Oracle: oracle, Key: key, Msg: fmt.Sprintf(format, a...)}
}

// checkContent: does the response object fit what the entry asked for (only called when the
// id identifies exactly one entry).
func checkContent(p *Plan, u *Unit, e *Entry, r *robj, timeoutPossible bool) string {
	if r.Version != "2.0" {
		return "missing jsonrpc version"
	}
	if (r.Error == nil) == (r.Result == nil) {
		return "response must have exactly one of result / error"
	}
	if r.Error != nil {
		switch {
		case r.Error.Code == -32002 && timeoutPossible:
			return ""
		case r.Error.Code == -32003 && p.RespLimit > 0 && u.Batch:
			return ""
		}
	}
	str := func() (string, bool) {
		var s string
		if r.Result == nil || json.Unmarshal(r.Result, &s) != nil {
			return "", false
		}
		return s, true
	}
	ecode := func(c int) string {
		if r.Error == nil || r.Error.Code != c {
			return fmt.Sprintf("expected error code %d", c)
		}
		return ""
	}
	if e.Kind == "invalid" {
		return ecode(-32600)
	}
	ctxErr := e.Ctx && r.Error != nil && r.Error.Code == -32000 && strings.Contains(r.Error.Message, "context")
	switch e.Method {
	case "sfxnone":
		return ecode(-32601)
	case "echo", "sfxecho":
		if s, ok := str(); !ok || s != e.Name {
			return "expected result " + e.Name
		}
	case "fail":
		if r.Error == nil || r.Error.Code != 77 || r.Error.Message != "fail:"+e.Name {
			return "expected the method's own error fail:" + e.Name
		}
	case "large":
		if s, ok := str(); !ok || s != largeResult(e.Name, e.N) {
			return fmt.Sprintf("expected the %d byte result of %s", e.N, e.Name)
		}
	case "sleep", "block":
		if ctxErr && timeoutPossible {
			return ""
		}
		if s, ok := str(); !ok || s != e.Name {
			return "expected result " + e.Name
		}
	case "sub":
		if p.Door == "http" {
			if r.Error == nil {
				return "subscribe over http must be refused"
			}
			return ""
		}
		if s, ok := str(); !ok || !strings.HasPrefix(s, "0x") {
			return "expected a subscription id"
		}
	case "unsub":
		// true, or an error (unknown id / not supported)
	case "nosuch":
		return ecode(-32601)
	case "badparams":
		return ecode(-32602)
	case "modules":
		if r.Result == nil {
			return "expected the module map"
		}
	}
	return ""
}

// partialOf returns the index of the unanswered batch (with a request timeout) of which ids is
// a strict, non-empty sub-multiset, or -1.
func partialOf(ids []string, batches []*batchExp, idsOf func(int) []string, timeoutPossible func(int) bool) int {
	if len(ids) == 0 {
		return -1
	}
	for bi, b := range batches {
		if b.matched > 0 || !timeoutPossible(b.ui) {
			continue
		}
		exp := idsOf(b.ui)
		if len(ids) >= len(exp) {
			continue
		}
		left := map[string]int{}
		for _, id := range exp {
			left[id]++
		}
		ok := true
		for _, id := range ids {
			left[id]--
			if left[id] < 0 {
				ok = false
			}
		}
		if ok {
			return bi
		}
	}
	return -1
}

type batchExp struct {
	ui      int
	sig     string
	matched int
}

// classifyPartial names a batch reply that carries only part (possibly nothing) of what batch
// unit ui must be answered with, under a request timeout. The known same-instant race
// (NOTES.md, keyBatchPartial) has an exact signature: the reply was written by the processing
// goroutine (no timeout error entry in it), a timeout-vs-return race was armed in the unit, and
// every lost call that runs a method was never started. Anything else gets the generic key.
func classifyPartial(p *Plan, w *world, res *simcore.Result, ui int, x *unitExpect, ids []string, f *frame) (string, *simcore.Violation) {
	var lost []string
	left := map[string]int{}
	for _, id := range x.batchIDs {
		left[id]++
	}
	for _, id := range ids {
		left[id]--
	}
	for _, id := range x.batchIDs {
		if left[id] > 0 {
			lost = append(lost, id)
			left[id] = 0
		}
	}
	const generic = "missing-response:batch-entries-unanswered"
	key := keyBatchPartial
	if !w.racy[ui] {
		key = generic
	}
	raw := "(nothing written)"
	if f != nil {
		raw = string(f.raw)
		for _, r := range f.objs {
			if r.Error != nil && r.Error.Code == -32002 {
				key = generic
			}
		}
	}
	for _, id := range lost {
		for _, e := range x.entryByID[id] {
			if e.runsMethod() && w.invoked[e.Name] > 0 && len(x.entryByID[id]) == 1 {
				key = generic
			}
		}
	}
	if key == keyBatchPartial {
		if u := &p.Units[ui]; u.CtxTimeoutMS > 0 && (u.WriteTimeoutMS == 0 || u.CtxTimeoutMS <= u.WriteTimeoutMS-100) {
			res.Probe("batch-partial-reply:context-deadline-tie")
		} else {
			res.Probe("batch-partial-reply:timeout-cancel-vs-return")
		}
	}
	return key, viol(oracleMissing, key, "batch unit %d: the reply carries %q, the entries with ids %q were never answered (request timeout / context deadline / outside cancellation hit while the batch was being processed): %s",
		ui, ids, lost, raw)
}

type notifParams struct {
	Subscription string     `json:"subscription"`
	Result       *evPayload `json:"result"`
}

// judge applies the C49 oracle to the observation.
func judge(p *Plan, o *obs, deadlock string, res *simcore.Result) *simcore.Result {
	w := o.w
	if w == nil {
		simcore.Harnessf("rpcsim: bubble ended before the world was built: %s", deadlock)
	}
	res.SimTimeNS = o.simNS
	if o.sched != nil {
		res.SchedFP = o.sched.FP()
		res.Events = o.sched.Steps()
	}
	if trace {
		fmt.Print(dumpObs(p, o))
	}
	fail := func(v *simcore.Violation) {
		if res.Violation == nil {
			v.Msg += "\n" + dumpObs(p, o)
			res.Violation = v
		}
	}
	maxInv := 0
	for _, n := range w.invoked {
		if n > maxInv {
			maxInv = n
		}
	}
	if o.schedErr != "" {
		if maxInv > 3 {
			fail(viol("runaway-execution", "runaway-execution", "one call was executed %d times (scheduler: %s)", maxInv, o.schedErr))
			return res
		}
		simcore.Harnessf("rpcsim scheduler: %s", o.schedErr)
	}

	// ---- collect frames per output stream
	type stream struct {
		frames []*frame
		units  []int // plan units answered on this stream
		http   *httpRes
	}
	var streams []*stream
	if p.Door == "http" {
		for ui, h := range o.https {
			fr, err := parseStream(h.rec.out, h.rec.writes)
			if err != nil {
				fail(viol(oracleMalformed, oracleMalformed, "http request %d: %v", ui, err))
				return res
			}
			streams = append(streams, &stream{frames: fr, units: []int{ui}, http: h})
		}
	} else {
		fr, err := parseStream(o.conn.out, o.conn.writes)
		if err != nil {
			fail(viol(oracleMalformed, oracleMalformed, "%v", err))
			return res
		}
		all := make([]int, len(p.Units))
		for i := range all {
			all[i] = i
		}
		streams = append(streams, &stream{frames: fr, units: all})
	}

	// liveness of the harness itself
	if deadlock != "" || (p.Door != "http" && !o.served.Load()) {
		// everything has been released and the connection ended, yet the server did not finish
		fail(viol("server-hang", "server-hang", "the server did not finish after the connection ended and every method was released: %s", deadlock))
		return res
	}
	for ui, h := range o.https {
		if !h.done {
			fail(viol("server-hang", "server-hang", "ServeHTTP of request %d did not return although every method was released", ui))
			return res
		}
	}

	// excused: after a server-side Stop / a reset the at-most-once half is all that is left
	exactly := true
	if p.Door != "http" && (p.End == "stop" || p.End == "reset") {
		exactly = false
	}

	lh := simcore.NewHash()
	st := simcore.NewHash()
	classOf := func(r *robj) string {
		switch {
		case r.Method != "":
			return "N"
		case r.Error != nil && (r.Error.Code == -32002 || (r.Error.Code == -32000 && strings.Contains(r.Error.Message, "context"))):
			return "T"
		case r.Error != nil:
			return fmt.Sprintf("E%d", r.Error.Code)
		default:
			return "R"
		}
	}

	for _, s := range streams {
		// ---- expectations
		xs := map[int]*unitExpect{}
		expSingles := map[string]int{}
		entryOfSingle := map[string][]*Entry{}
		unitOfSingle := map[string]int{}
		var batches []*batchExp
		for _, ui := range s.units {
			u := &p.Units[ui]
			x := expectUnit(p, u)
			xs[ui] = x
			switch {
			case x.single:
				expSingles[x.singleID]++
				entryOfSingle[x.singleID] = append(entryOfSingle[x.singleID], x.entryByID[x.singleID]...)
				unitOfSingle[x.singleID] = ui
			case len(x.batchIDs) > 0:
				batches = append(batches, &batchExp{ui: ui, sig: sig(x.batchIDs)})
			}
			if x.tooLarge {
				res.Probe("batch-too-large")
			}
		}
		if p.Door != "http" && p.End == "garbage" {
			expSingles["null"]++ // the parse error for the broken tail
		}
		timeoutPossible := func(ui int) bool {
			if p.Door == "wbox" {
				return p.WriteTimeoutMS > 0
			}
			u := &p.Units[ui]
			// an outside cancellation makes the tree answer what is left with the timeout error too
			return p.Door == "http" && (u.WriteTimeoutMS > 0 || u.CtxTimeoutMS > 0 || u.CancelNS > 0)
		}

		// ---- walk the frames
		gotSingles := map[string]int{}
		subResp := map[string]int{} // subscription id -> index of the frame whose result carried it
		type notif struct {
			frame int
			sub   string
			name  string
		}
		var notifs []notif
		for fi, f := range s.frames {
			if f.repeat {
				lh = lh.String("N")
				continue
			}
			if f.isArray {
				var ids []string
				for _, r := range f.objs {
					if r.Method != "" {
						fail(viol(oracleBatchShape, oracleBatchShape, "batch reply at byte %d contains a request/notification object: %s", f.off, f.raw))
						return res
					}
					id := r.id()
					if id == "" {
						// An error entry without any "id" member: the tree writes this for an
						// id-less invalid entry on the timeout / response-too-large path
						// (JSON-RPC 2.0 asks for "id":null there). The property text does not
						// speak about that, so it is counted as a null id and only probed.
						if r.Error == nil {
							fail(viol(oracleBatchShape, oracleBatchShape, "batch reply element without id and without error at byte %d: %s", f.off, f.raw))
							return res
						}
						res.Probe("error-entry-without-id-member")
						id = "null"
					}
					ids = append(ids, id)
					var sid string
					if r.Result != nil && json.Unmarshal(r.Result, &sid) == nil && strings.HasPrefix(sid, "0x") {
						if _, dup := subResp[sid]; !dup {
							subResp[sid] = fi
						}
					}
				}
				sg := sig(ids)
				var hit *batchExp
				for _, b := range batches {
					if b.sig == sg && b.matched == 0 {
						hit = b
						break
					}
				}
				if hit == nil {
					for _, b := range batches {
						if b.sig == sg {
							fail(viol(oracleBatchTwice, oracleBatchTwice, "the reply to batch unit %d was written twice (second array at byte %d): %s", b.ui, f.off, f.raw))
							return res
						}
					}
					// a strict part of a batch that ran under a request timeout: the reply was
					// written by the processing goroutine after it saw the cancelled context,
					// without error entries for the calls it never started
					if pb := partialOf(ids, batches, func(ui int) []string { return xs[ui].batchIDs }, timeoutPossible); pb >= 0 {
						b := batches[pb]
						key, v := classifyPartial(p, w, res, b.ui, xs[b.ui], ids, f)
						if key == keyBatchPartial && simcore.IsKnown(keyBatchPartial) {
							res.KnownHit(keyBatchPartial)
							b.matched++
							continue
						}
						fail(v)
						return res
					}
					// overlapping ids with some batch -> partial or repeated reply
					for _, b := range batches {
						exp := map[string]bool{}
						for _, id := range xs[b.ui].batchIDs {
							exp[id] = true
						}
						for _, id := range ids {
							if exp[id] && id != "null" {
								orc := oracleBatchShape
								if b.matched > 0 {
									orc = oracleBatchTwice
								}
								fail(viol(orc, orc, "array at byte %d answers batch unit %d but does not carry exactly its entries (expected ids %q, got %q; unit already answered %d times): %s",
									f.off, b.ui, xs[b.ui].batchIDs, ids, b.matched, f.raw))
								return res
							}
						}
					}
					fail(viol(oracleUnexpected, oracleUnexpected, "array at byte %d matches no batch that was sent: %s", f.off, f.raw))
					return res
				}
				hit.matched++
				x := xs[hit.ui]
				u := &p.Units[hit.ui]
				for _, r := range f.objs {
					id := r.id()
					if id == "" {
						id = "null"
					}
					if x.tooLarge {
						if allNull(x.batchIDs) {
							continue // an all-null reply cannot be attributed to one batch
						}
						if r.Error == nil || r.Error.Code != -32600 {
							fail(viol(oracleContent, oracleContent, "over-limit batch unit %d must be answered with one invalid-request error: %s", hit.ui, f.raw))
							return res
						}
						continue
					}
					if es := x.entryByID[id]; len(es) == 1 && !allNull(x.batchIDs) {
						if msg := checkContent(p, u, es[0], r, timeoutPossible(hit.ui)); msg != "" {
							fail(viol(oracleContent, oracleContent, "batch unit %d entry %s (id %s): %s; got %s", hit.ui, es[0].Name, id, msg, f.raw))
							return res
						}
					}
					if !w.racy[hit.ui] {
						lh = lh.String(classOf(r))
					}
					st = st.String(classOf(r))
					if r.Error != nil && r.Error.Code == -32003 {
						res.Probe("resp-too-large")
					}
					if r.Error != nil && r.Error.Code == -32002 {
						res.Fault("timeout-fired")
					}
				}
				if !w.racy[hit.ui] {
					lh = lh.String("A").U64(uint64(hit.ui))
				}
				continue
			}
			r := f.objs[0]
			if r.Method != "" {
				// server -> client notification
				if r.ID != nil {
					fail(viol(oracleUnexpected, oracleUnexpected, "the server sent a request with an id: %s", f.raw))
					return res
				}
				var np notifParams
				if r.Method != "t_subscription" || json.Unmarshal(r.Params, &np) != nil || np.Subscription == "" {
					fail(viol(oracleUnexpected, oracleUnexpected, "unexpected notification: %s", f.raw))
					return res
				}
				n := notif{frame: fi, sub: np.Subscription}
				if np.Result != nil {
					n.name = np.Result.Name
				}
				notifs = append(notifs, n)
				lh = lh.String("N").String(n.name)
				st = st.String("N")
				res.Probe("subscription-notification-stream")
				continue
			}
			id := r.id()
			if id == "" {
				if r.Error == nil {
					fail(viol(oracleMalformed, oracleMalformed, "object with neither id nor method nor error at byte %d: %s", f.off, f.raw))
					return res
				}
				res.Probe("error-entry-without-id-member")
				id = "null"
			}
			if r.ID == nil && r.Error != nil && r.Error.Code == -32002 {
				// timeout error written for a single message that was a notification?
				var culprit *Entry
				for _, ui := range s.units {
					u := &p.Units[ui]
					if !u.Batch && len(u.Entries) == 1 && u.Entries[0].Kind == "notif" && timeoutPossible(ui) {
						culprit = &u.Entries[0]
					}
				}
				if culprit != nil && gotSingles[id]+1 > expSingles[id] {
					v := viol(oracleNotifResponse, keyNotifTimeout, "the notification %s (a request without id) was answered: when its method outlived the request timeout the server wrote %s", culprit.Name, f.raw)
					if simcore.IsKnown(keyNotifTimeout) {
						res.KnownHit(keyNotifTimeout)
						continue
					}
					fail(v)
					return res
				}
			}
			gotSingles[id]++
			if gotSingles[id] > expSingles[id] {
				if expSingles[id] == 0 {
					fail(viol(oracleUnexpected, oracleUnexpected, "response with id %s answers nothing that was sent (or answers a notification): %s", id, f.raw))
				} else {
					fail(viol(oracleDupResponse, oracleDupResponse, "id %s: %d call(s) sent, response number %d written at byte %d: %s", id, expSingles[id], gotSingles[id], f.off, f.raw))
				}
				return res
			}
			var sid string
			if r.Result != nil && json.Unmarshal(r.Result, &sid) == nil && strings.HasPrefix(sid, "0x") {
				if _, dup := subResp[sid]; !dup {
					subResp[sid] = fi
				}
			}
			if es := entryOfSingle[id]; len(es) == 1 && expSingles[id] == 1 && id != "null" {
				ui := unitOfSingle[id]
				if msg := checkContent(p, &p.Units[ui], es[0], r, timeoutPossible(ui)); msg != "" {
					fail(viol(oracleContent, oracleContent, "unit %d entry %s (id %s): %s; got %s", ui, es[0].Name, id, msg, f.raw))
					return res
				}
			}
			cls := classOf(r)
			if ui, ok := unitOfSingle[id]; !ok || !w.racy[ui] {
				lh = lh.String("S").String(id).String(cls)
			}
			st = st.String(cls)
			if r.Error != nil && r.Error.Code == -32002 {
				res.Fault("timeout-fired")
			}
			if r.Error != nil && r.Error.Code == -32700 {
				res.Probe("parse-error")
			}
		}

		// ---- subscriptions: the first notification of S comes after the response carrying S
		nameOfSub := map[string]string{}
		{
			names := make([]string, 0, len(w.subIDs))
			for n := range w.subIDs {
				names = append(names, n)
			}
			sort.Strings(names)
			for _, n := range names {
				nameOfSub[w.subIDs[n]] = n
			}
		}
		seenSub := map[string]bool{}
		for _, n := range notifs {
			if seenSub[n.sub] {
				continue
			}
			seenSub[n.sub] = true
			name := nameOfSub[n.sub]
			fi, ok := subResp[n.sub]
			switch {
			case !ok:
				key := oracleNotifyNoResp
				detail := ""
				if e := w.entries[name]; e != nil {
					switch {
					case e.Kind == "notif":
						key = keyIdlessSubscribe
						detail = " (the subscribe request " + name + " was sent without an id, i.e. as a JSON-RPC notification: the server executed it, wrote no response, and still activated the subscription)"
					case p.Door == "wbox":
						key = keyTimedOutSub
						detail = " (the subscribe call " + name + " was answered with an error, yet the subscription was registered and activated)"
					}
				}
				v := viol(oracleNotifyNoResp, key, "notification for subscription %s (entry %s) at frame %d, but no response carrying that subscription id was ever written%s", n.sub, name, n.frame, detail)
				if simcore.IsKnown(key) {
					res.KnownHit(key)
					continue
				}
				fail(v)
				return res
			case fi > n.frame:
				fail(viol(oracleNotifyEarly, oracleNotifyEarly, "first notification of subscription %s (entry %s) is frame %d, the response carrying the id is frame %d", n.sub, name, n.frame, fi))
				return res
			default:
				res.Probe("notify-after-response")
			}
			if name != "" && n.name != "" && n.name != name {
				fail(viol(oracleContent, oracleContent, "notification on subscription %s (entry %s) carries the payload of entry %s", n.sub, name, n.name))
				return res
			}
		}

		// ---- completeness
		ids := make([]string, 0, len(expSingles))
		for id := range expSingles {
			ids = append(ids, id)
		}
		sort.Strings(ids)
		for _, id := range ids {
			if gotSingles[id] < expSingles[id] {
				if !exactly {
					res.Probe("unanswered-at-teardown")
					continue
				}
				fail(viol(oracleMissing, oracleMissing, "id %s: %d response(s) expected, %d written", id, expSingles[id], gotSingles[id]))
				return res
			}
		}
		for _, b := range batches {
			if b.matched == 0 {
				if !exactly {
					res.Probe("unanswered-at-teardown")
					continue
				}
				if timeoutPossible(b.ui) {
					// the empty variant of the partial reply: nothing had been collected when the
					// processing goroutine saw the cancelled context, so nothing was written
					key, v := classifyPartial(p, w, res, b.ui, xs[b.ui], nil, nil)
					if key == keyBatchPartial && simcore.IsKnown(keyBatchPartial) {
						res.KnownHit(keyBatchPartial)
						continue
					}
					fail(v)
					return res
				}
				fail(viol(oracleMissing, oracleMissing, "batch unit %d (ids %q) was never answered", b.ui, xs[b.ui].batchIDs))
				return res
			}
		}

		// ---- http specifics: status, one body, answered by the deadline
		if s.http != nil {
			ui := s.units[0]
			u := &p.Units[ui]
			h := s.http
			if h.rec.status != 0 && h.rec.status != 200 {
				fail(viol(oracleUnexpected, oracleUnexpected, "http request %d: status %d", ui, h.rec.status))
				return res
			}
			if len(s.frames) > 1 {
				fail(viol(oracleDupResponse, oracleDupResponse, "http request %d: %d JSON values in one response body", ui, len(s.frames)))
				return res
			}
			var bound int64
			if u.WriteTimeoutMS > 0 {
				bound = int64(u.WriteTimeoutMS) * ms
			}
			if u.CtxTimeoutMS > 0 && (bound == 0 || int64(u.CtxTimeoutMS)*ms < bound) {
				bound = int64(u.CtxTimeoutMS) * ms
			}
			x := xs[ui]
			if bound > 0 && !x.noReply && len(s.frames) == 1 {
				if at := s.frames[0].at; at > h.startAt+bound+ms {
					fail(viol(oracleLate, oracleLate, "http request %d started at %d ns with a timeout of %d ns was answered at %d ns", ui, h.startAt, bound, at))
					return res
				}
				res.Probe("answered-by-deadline")
			}
			if !w.racy[ui] {
				lh = lh.U64(uint64(len(h.rec.writes)))
				for _, wr := range h.rec.writes {
					lh = lh.U64(uint64(wr.at))
				}
			}
		}
	}

	// ---- probes and fingerprints
	if o.conn != nil {
		if o.conn.late > 0 {
			res.Probe("write-rejected-after-close")
		}
		if o.conn.short > 0 {
			res.Fault("short-read")
		}
		for _, wr := range o.conn.writes {
			lh = lh.U64(uint64(wr.at))
			if o.conn.closedAt >= 0 && wr.at > o.conn.closedAt {
				fail(viol(oracleAfterClose, oracleAfterClose, "bytes reached the wire at %d ns, after the server closed the connection at %d ns", wr.at, o.conn.closedAt))
				return res
			}
		}
		switch p.End {
		case "stop":
			res.Fault("server-stop")
		case "reset":
			res.Fault("conn-reset")
		case "garbage":
			res.Fault("garbage-tail")
		case "truncated":
			res.Fault("truncated-tail")
		}
		for name, at := range w.returned {
			if at > o.endAt && o.endAt > 0 {
				_ = name
				res.Probe("call-in-flight-at-teardown")
				break
			}
		}
	}
	for ui := range p.Units {
		u := &p.Units[ui]
		if len(u.Frag) > 0 && p.Door != "http" {
			res.Fault("fragmented-feed")
		}
		if at := w.timerAt[ui]; at != 0 {
			for i := range u.Entries {
				e := &u.Entries[i]
				if ret, ok := w.returned[e.Name]; ok && ret > at {
					res.Probe("timeout-fired-while-method-running")
				}
			}
		}
		if w.racy[ui] {
			res.Probe("same-instant-timeout-vs-return")
		}
		if at, ok := w.cancelled[ui]; ok {
			res.Fault("request-context-cancelled")
			for i := range u.Entries {
				if ret, ok := w.returned[u.Entries[i].Name]; ok && ret >= at {
					res.Probe("cancelled-while-method-running")
					break
				}
			}
			if h := o.https[ui]; h.startAt <= at && u.Batch {
				for i := range u.Entries {
					e := &u.Entries[i]
					if e.runsMethod() && w.invoked[e.Name] == 0 {
						res.Probe("cancelled-with-batch-calls-unstarted")
						break
					}
				}
			}
		}
		seen := map[string]bool{}
		for i := range u.Entries {
			e := &u.Entries[i]
			if e.ID != "" && e.Kind != "strayresp" {
				if seen[e.ID] {
					res.Probe("duplicate-id-in-batch")
				}
				seen[e.ID] = true
			}
			if e.Method == "sub" && e.Kind == "notif" {
				res.Probe("idless-subscribe")
			}
			if e.Method == "sub" && e.Pre >= 40000 && w.notified[e.Name] >= 40000 {
				res.Probe("bulk-in-call-notifications")
			}
			if (e.Method == "sfxecho" || e.Method == "sfxnone") && e.Kind == "call" {
				res.Probe("call-named-like-subscription-notification")
			}
		}
	}
	// A same-instant race (not decided by the simulator) changes which gates are reached
	// afterwards, hence the tape positions of everything that follows: in such runs the
	// determinism fingerprint keeps only what is still decided (per-unit outputs of the other
	// units, the set of their invocations), not the released-gate sequence.
	inv := []string{}
	for _, n := range w.invLog {
		if !w.racy[w.unitOf[n]] {
			inv = append(inv, n)
		}
	}
	if len(w.racy) > 0 {
		sort.Strings(inv)
	} else {
		lh = lh.U64(res.SchedFP)
	}
	for _, n := range inv {
		lh = lh.String(n)
	}
	res.LogHash = uint64(lh)
	res.StateFP = uint64(st)
	res.NonTrivial = (o.sched != nil && o.sched.Choices() >= 2) || res.Faults["timeout-fired"] > 0
	return res
}
