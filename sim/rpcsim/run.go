package rpcsim

import (
	"bytes"
	"context"
	"encoding/json"
	"fmt"
	"io"
	"net/http"
	"os"
	"sort"
	"sync/atomic"
	"testing"
	"testing/synctest"
	"time"

	"github.com/ethereum/go-ethereum/rpc"

	"verifsim/simcore"
	"verifsim/simsched"
)

// httpRes is what one ServeHTTP call produced.
type httpRes struct {
	rec     *recWriter
	startAt int64
	doneAt  int64
	done    bool
}

// obs is everything observed in one run.
type obs struct {
	w        *world
	conn     *simConn    // codec / wbox
	https    []*httpRes  // http, one per unit
	endAt    int64       // instant of the end operation (codec)
	served   atomic.Bool // ServeCodec returned
	schedErr string
	simNS    int64
	sched    *simsched.Sched
}

var trace = os.Getenv("VERIF_TRACE") != ""

func Run(t *testing.T, pl any) *simcore.Result {
	p := pl.(*Plan)
	res := simcore.NewResult()
	if len(p.Units) == 0 {
		return res
	}
	o := &obs{}
	dl := simsched.Bubble(t, func() {
		start := time.Now()
		w := newWorld(p, start)
		o.w = w
		srv := rpc.NewServer()
		srv.SetBatchLimits(p.ItemLimit, p.RespLimit)
		if err := srv.RegisterName("t", &svc{w}); err != nil {
			simcore.Harnessf("register: %v", err)
		}
		sched := simsched.New(p.Tape, simsched.ModeWait)
		sched.MaxSteps = 4000
		w.sched = sched
		o.sched = sched
		switch p.Door {
		case "codec", "wbox":
			runConn(p, o, srv)
		case "http":
			runHTTP(p, o, srv)
		default:
			simcore.Harnessf("unknown door %q", p.Door)
		}
		if sched.Err != nil {
			o.schedErr = sched.Err.Error()
			// let everything go so that the bubble can end
			w.releaseAll()
			if o.conn != nil {
				o.conn.Close()
			}
		}
		synctest.Wait()
		o.simNS = int64(time.Since(start))
	})
	return judge(p, o, dl, res)
}

// startReleasers starts one actor per timed release.
func startReleasers(p *Plan, w *world) {
	names := make([]string, 0, len(w.rel))
	for n := range w.rel {
		names = append(names, n)
	}
	sort.Strings(names)
	for _, n := range names {
		e := w.entries[n]
		if e.RelNS <= 0 {
			continue
		}
		n, at := n, e.RelNS
		w.sched.Go("rel:"+n, func() {
			w.sleepUntil(at)
			w.sched.Gate("rel:" + n)
			w.release(n)
		})
	}
}

// knownSubID returns the subscription id of the named subscribe entry if a
// client could know it: the id has appeared as a result on the wire.
func knownSubID(w *world, out []byte, name string) string {
	w.mu.Lock()
	id := w.subIDs[name]
	w.mu.Unlock()
	if id == "" {
		return ""
	}
	if bytes.Contains(out, []byte(`"result":"`+id+`"`)) {
		return id
	}
	return ""
}

func runConn(p *Plan, o *obs, srv *rpc.Server) {
	w := o.w
	conn := newSimConn(w.start, p.ReadCap)
	// bulk notification runs: size the wire record once instead of growing it 40 times
	for ui := range p.Units {
		for ei := range p.Units[ui].Entries {
			if e := &p.Units[ui].Entries[ei]; e.Method == "sub" && e.Pre > 1000 {
				conn.out = make([]byte, 0, (e.Pre+16)*176)
				conn.writes = make([]wrec, 0, e.Pre+64)
			}
		}
	}
	o.conn = conn
	served := make(chan struct{})
	worldDone := make(chan struct{})
	codec := rpc.NewCodec(conn)
	go func() {
		if p.Door == "wbox" {
			serveWhiteBox(srv, codec, time.Duration(p.WriteTimeoutMS)*time.Millisecond)
		} else {
			srv.ServeCodec(codec, 0)
		}
		o.served.Store(true)
		close(served)
	}()
	go func() {
		<-served
		w.emitters.Wait()
		close(worldDone)
	}()
	startReleasers(p, w)
	w.sched.Go("client", func() {
		for ui := range p.Units {
			u := &p.Units[ui]
			w.sleepUntil(u.AtNS)
			w.sched.Gate(fmt.Sprintf("feed:%d", ui))
			text := []byte(unitText(u, func(name string) string { return knownSubID(w, conn.snapshot(), name) }))
			text = append(text, '\n')
			for k, f := range u.Frag {
				if f <= 0 || f >= len(text) {
					break
				}
				conn.feed(text[:f])
				text = text[f:]
				if u.GapNS > 0 {
					time.Sleep(time.Duration(u.GapNS))
				}
				w.sched.Gate(fmt.Sprintf("feed:%d:%d", ui, k))
			}
			conn.feed(text)
		}
		w.sleepUntil(p.EndNS)
		w.sched.Gate("end")
		o.endAt = w.now()
		switch p.End {
		case "stop":
			srv.Stop()
		case "reset":
			conn.endInput(errReset)
		case "garbage":
			conn.feed([]byte(`{"jsonrpc":"2.0",,"id":1}` + "\n"))
			conn.endInput(io.EOF)
		case "truncated":
			conn.feed([]byte(`{"jsonrpc":"2.0","id":991,"meth`))
			conn.endInput(io.EOF)
		default:
			conn.endInput(io.EOF)
		}
		w.sleepUntil(p.FinalNS)
		w.sched.Gate("final")
		w.releaseAll()
		<-worldDone
	})
	w.sched.Run()
}

func runHTTP(p *Plan, o *obs, srv *rpc.Server) {
	w := o.w
	for range p.Units {
		o.https = append(o.https, &httpRes{rec: newRecWriter(w.start)})
	}
	startReleasers(p, w)
	// request contexts that are cancelled from outside at a planned instant
	bases := make([]context.Context, len(p.Units))
	for ui := range p.Units {
		bases[ui] = context.Background()
		if at := p.Units[ui].CancelNS; at > 0 {
			ctx, cancel := context.WithCancel(context.Background())
			bases[ui] = ctx
			ui := ui
			w.sched.Go(fmt.Sprintf("cancel:%d", ui), func() {
				w.sleepUntil(at)
				w.sched.Gate(fmt.Sprintf("cancel:%d", ui))
				w.mu.Lock()
				w.cancelled[ui] = w.now()
				w.mu.Unlock()
				cancel()
			})
		}
	}
	for ui := range p.Units {
		ui := ui
		u := &p.Units[ui]
		hr := o.https[ui]
		w.sched.Go(fmt.Sprintf("req:%d", ui), func() {
			w.sleepUntil(u.AtNS)
			w.sched.Gate(fmt.Sprintf("req:%d", ui))
			body := []byte(unitText(u, func(string) string { return "" }))
			ctx := context.WithValue(bases[ui], http.ServerContextKey,
				&http.Server{WriteTimeout: time.Duration(u.WriteTimeoutMS) * time.Millisecond})
			if u.CtxTimeoutMS > 0 {
				var cancel context.CancelFunc
				ctx, cancel = context.WithTimeout(ctx, time.Duration(u.CtxTimeoutMS)*time.Millisecond)
				defer cancel()
			}
			req, err := http.NewRequestWithContext(ctx, http.MethodPost, "http://sim.invalid/", &capReader{b: body, cap: p.ReadCap})
			if err != nil {
				simcore.Harnessf("new request: %v", err)
			}
			req.Header.Set("content-type", "application/json")
			req.ContentLength = int64(len(body))
			hr.startAt = w.now()
			srv.ServeHTTP(hr.rec, req)
			hr.doneAt = w.now()
			hr.done = true
		})
	}
	w.sched.Go("final", func() {
		w.sleepUntil(p.FinalNS)
		w.sched.Gate("final")
		w.releaseAll()
	})
	w.sched.Run()
}

// clip keeps the head and the tail of a long wire dump.
func clip(b []byte) []byte {
	if len(b) <= 6000 {
		return b
	}
	out := append([]byte{}, b[:3000]...)
	out = append(out, []byte(fmt.Sprintf("\n... [%d bytes omitted] ...\n", len(b)-6000))...)
	return append(out, b[len(b)-3000:]...)
}

func dumpObs(p *Plan, o *obs) string {
	var b bytes.Buffer
	pb, _ := json.Marshal(p)
	fmt.Fprintf(&b, "plan: %s\n", pb)
	if o.conn != nil {
		fmt.Fprintf(&b, "wire out (%d writes, %d rejected after close, closedAt=%d):\n%s\n", len(o.conn.writes), o.conn.late, o.conn.closedAt, clip(o.conn.out))
	}
	for i, h := range o.https {
		fmt.Fprintf(&b, "http[%d] start=%d done=%v/%d status=%d writes=%v body:\n%s\n", i, h.startAt, h.done, h.doneAt, h.rec.status, h.rec.writes, h.rec.out)
	}
	if o.w != nil {
		fmt.Fprintf(&b, "invocations: %v\n", o.w.invLog)
	}
	return b.String()
}
