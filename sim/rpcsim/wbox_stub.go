//go:build !verif

package rpcsim

import (
	"time"

	"github.com/ethereum/go-ethereum/rpc"

	"verifsim/simcore"
)

func serveWhiteBox(srv *rpc.Server, codec rpc.ServerCodec, writeTimeout time.Duration) {
	simcore.Harnessf("white-box door needs the verif build tag and overlay")
}
