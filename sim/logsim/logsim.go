// Package logsim decides C40: log queries served through the filtermaps log index
// return exactly the logs a direct scan of the canonical receipts returns, at any
// indexing progress.
//
// Real code: core/filtermaps (FilterMaps, indexer goroutine, map renderer,
// matcher, matcher backend, ChainView) and eth/filters (Filter, FilterSystem,
// range search session). Simulator-owned: the chain (a block tree with receipts
// written through rawdb into a SimKV, canonical markers moved by the plan), the
// index disk (SimKV, every write unit is a gate), the matcher-backend seam (every
// call of a query into the index is a gate), the clock (synctest bubble) and the
// schedule (tape).
package logsim

import (
	"context"
	"encoding/json"
	"errors"
	"fmt"
	"log/slog"
	"math/big"
	"os"
	"runtime"
	"runtime/debug"
	"sort"
	"strings"
	"sync"
	"testing"
	"time"

	"github.com/ethereum/go-ethereum/common"
	"github.com/ethereum/go-ethereum/core"
	"github.com/ethereum/go-ethereum/core/filtermaps"
	"github.com/ethereum/go-ethereum/core/rawdb"
	"github.com/ethereum/go-ethereum/core/types"
	"github.com/ethereum/go-ethereum/eth/filters"
	"github.com/ethereum/go-ethereum/ethdb"
	"github.com/ethereum/go-ethereum/event"
	"github.com/ethereum/go-ethereum/log"
	"github.com/ethereum/go-ethereum/params"
	"github.com/ethereum/go-ethereum/rpc"
	"github.com/ethereum/go-ethereum/trie"

	"verifsim/simcore"
	"verifsim/simdisk"
	"verifsim/simsched"
)

const (
	nAddr  = 4
	nTopic = 5
)

// ---- plan

type LogSpec struct {
	A int   `json:"a"`
	T []int `json:"t,omitempty"`
}

type BlockSpec struct {
	Parent int         `json:"p"` // index into Blocks, -1 = genesis
	Txs    [][]LogSpec `json:"x,omitempty"`
}

type QuerySpec struct {
	Begin  int64     `json:"b"` // block number, -2 = latest, -5 = earliest
	End    int64     `json:"e"`
	Addrs  []int   `json:"a,omitempty"` // index >= nAddr: an address that never logs
	Topics [][]int `json:"t,omitempty"` // per position: alternatives; empty = wildcard
}

type Op struct {
	Kind    string      `json:"k"`           // head | query | idle | restart (head with queries: run between marker switch and SetTarget)
	Head    int         `json:"h,omitempty"` // head: block index to make canonical head (-1 = genesis)
	Queries []QuerySpec `json:"q,omitempty"` // query: run concurrently (1-2)
	History uint64      `json:"hist,omitempty"`
	Lag     int         `json:"lag,omitempty"` // head with queries: gates this actor passes before delivering the target
}

type Plan struct {
	LogMapHeight       uint   `json:"log_map_height"`
	LogMapWidth        uint   `json:"log_map_width"`
	LogMapsPerEpoch    uint   `json:"log_maps_per_epoch"`
	LogValuesPerMap    uint   `json:"log_values_per_map"`
	BaseRowGroupSize   uint32 `json:"base_row_group_size"`
	BaseRowLengthRatio uint   `json:"base_row_length_ratio"`
	LogLayerDiff       uint   `json:"log_layer_diff"`
	History            uint64 `json:"history"`
	HashScheme         bool   `json:"hash_scheme"`
	Disabled           bool   `json:"disabled,omitempty"`
	StartHead          int    `json:"start_head"`

	Blocks []BlockSpec `json:"blocks"`
	Ops    []Op        `json:"ops"`
	Tape   []uint16    `json:"tape"`
}

// genState tracks the tree while generating so that ops refer to existing blocks.
type genState struct {
	p      *Plan
	number []int // number of block i
	head   int   // current canonical head (block index, -1 genesis)
	tips   []int // earlier heads (for switching back)
}

func (g *genState) num(i int) int {
	if i < 0 {
		return 0
	}
	return g.number[i]
}

func (g *genState) parent(i int) int {
	if i < 0 {
		return -1
	}
	return g.p.Blocks[i].Parent
}

func genLogs(r *simcore.Rand) [][]LogSpec {
	var total int
	switch r.Pick(3, 4, 2, 1) {
	case 0:
		total = 0
	case 1:
		total = r.Range(1, 4)
	case 2:
		total = r.Range(5, 14)
	default:
		total = r.Range(15, 30)
	}
	var txs [][]LogSpec
	for total > 0 {
		n := r.Range(0, 4)
		if n > total {
			n = total
		}
		var logs []LogSpec
		for j := 0; j < n; j++ {
			l := LogSpec{A: r.Intn(nAddr)}
			nt := r.Pick(2, 3, 3, 2, 2)
			for k := 0; k < nt; k++ {
				l.T = append(l.T, r.Intn(nTopic))
			}
			logs = append(logs, l)
		}
		txs = append(txs, logs)
		total -= n
		if n == 0 && r.Bool(0.5) {
			break
		}
	}
	if r.Bool(0.1) {
		txs = append(txs, nil) // a trailing transaction without logs
	}
	return txs
}

func (g *genState) extend(r *simcore.Rand, from, n int) int {
	cur := from
	for i := 0; i < n; i++ {
		g.p.Blocks = append(g.p.Blocks, BlockSpec{Parent: cur, Txs: genLogs(r)})
		g.number = append(g.number, g.num(cur)+1)
		cur = len(g.p.Blocks) - 1
	}
	return cur
}

func genQuery(r *simcore.Rand, head int, history uint64) QuerySpec {
	q := QuerySpec{}
	tail := 0
	if history > 0 && uint64(head) >= history {
		tail = head + 1 - int(history)
	}
	switch r.Pick(3, 2, 2, 2, 1, 1, 1) {
	case 0: // anywhere
		a, b := r.Range(0, head), r.Range(0, head)
		if a > b {
			a, b = b, a
		}
		q.Begin, q.End = int64(a), int64(b)
	case 1: // inside the (expected) indexed range
		a, b := r.Range(tail, head), r.Range(tail, head)
		if a > b {
			a, b = b, a
		}
		q.Begin, q.End = int64(a), int64(b)
	case 2: // straddling the tail
		a := r.Range(0, tail)
		b := r.Range(tail, head)
		q.Begin, q.End = int64(a), int64(b)
	case 3: // up to latest
		q.Begin, q.End = int64(r.Range(0, head)), int64(rpc.LatestBlockNumber)
	case 4: // latest only
		q.Begin, q.End = int64(rpc.LatestBlockNumber), int64(rpc.LatestBlockNumber)
	case 5: // whole chain
		q.Begin, q.End = int64(rpc.EarliestBlockNumber), int64(rpc.LatestBlockNumber)
	default: // below the tail only
		b := r.Range(0, tail)
		a := r.Range(0, b)
		q.Begin, q.End = int64(a), int64(b)
	}
	// addresses
	switch r.Pick(3, 4, 2, 1) {
	case 0:
	case 1:
		q.Addrs = []int{r.Intn(nAddr)}
	case 2:
		n := r.Range(2, 3)
		for i := 0; i < n; i++ {
			q.Addrs = append(q.Addrs, r.Intn(nAddr+1))
		}
	default:
		q.Addrs = []int{nAddr + r.Intn(2)}
	}
	// topics
	npos := r.Pick(3, 3, 3, 2, 1)
	for i := 0; i < npos; i++ {
		switch r.Pick(3, 4, 2) {
		case 0:
			q.Topics = append(q.Topics, []int{})
		case 1:
			q.Topics = append(q.Topics, []int{r.Intn(nTopic)})
		default:
			n := r.Range(2, 3)
			var alt []int
			for j := 0; j < n; j++ {
				alt = append(alt, r.Intn(nTopic+1))
			}
			q.Topics = append(q.Topics, alt)
		}
	}
	return q
}

func Gen(r *simcore.Rand, tier string) any {
	p := &Plan{}
	p.LogMapHeight = uint(r.Range(1, 3))
	p.LogValuesPerMap = uint(r.Range(3, 6))
	p.LogMapsPerEpoch = uint(r.Range(0, 3))
	widths := []uint{8, 16, 24}
	p.LogMapWidth = widths[r.Pick(3, 2, 2)]
	// a base row group must not span epochs (deleteTailEpoch removes whole key ranges of
	// an epoch; with a group larger than an epoch that would take base rows of later
	// epochs with it). DefaultParams satisfy this; Params.sanitize does not check it.
	p.BaseRowGroupSize = uint32(1) << uint(r.Range(0, min(3, int(p.LogMapsPerEpoch))))
	p.BaseRowLengthRatio = uint(r.Range(2, 6)) // ratio 1 = map capacity equals values per map: a full map has no non-full row and the matcher never terminates (degenerate Params, not generated)
	p.LogLayerDiff = uint(r.Range(1, 3))
	if !r.Bool(0.35) {
		p.History = uint64(r.Range(2, 40))
	}
	p.HashScheme = r.Bool(0.3)
	p.Disabled = r.Bool(0.02)

	g := &genState{p: p, head: -1}
	// initial chain
	g.head = g.extend(r, -1, r.Range(1, 40))
	p.StartHead = g.head
	if r.Bool(0.2) {
		// start the indexer somewhere in the middle of the initial chain
		k := r.Range(0, g.num(g.head)-1)
		h := g.head
		for g.num(h) > k+1 {
			h = g.parent(h)
		}
		p.StartHead = h
	}
	cur := p.StartHead // the canonical head as the ops see it
	g.tips = append(g.tips, g.head)
	hist := p.History
	nops := r.Range(5, 16)
	maxBlocks := 90
	for i := 0; i < nops; i++ {
		switch r.Pick(3, 4, 1, 6, 2, 1) {
		case 0: // extend
			if len(p.Blocks) >= maxBlocks {
				continue
			}
			// if the start head is inside the initial chain, first walk forward on it
			if cur != g.head && r.Bool(0.7) {
				// move to a descendant tip already generated
				cur = g.head
			} else {
				cur = g.extend(r, cur, r.Range(1, 8))
				g.head = cur
				g.tips = append(g.tips, cur)
			}
			p.Ops = append(p.Ops, Op{Kind: "head", Head: cur})
		case 1: // reorg of depth 1..15
			if len(p.Blocks) >= maxBlocks {
				continue
			}
			depth := r.Range(1, 15)
			if depth > g.num(cur) {
				depth = g.num(cur)
			}
			if depth == 0 {
				continue
			}
			fork := cur
			for k := 0; k < depth; k++ {
				fork = g.parent(fork)
			}
			var n int
			switch r.Pick(2, 3, 1) {
			case 0:
				n = r.Range(1, depth) // shorter or equal
			case 1:
				n = depth + r.Range(0, 3)
			default:
				n = depth + r.Range(4, 10)
			}
			cur = g.extend(r, fork, n)
			g.head = cur
			g.tips = append(g.tips, cur)
			p.Ops = append(p.Ops, Op{Kind: "head", Head: cur})
		case 2: // switch back to an earlier tip, or to an ancestor (head moves backwards)
			if r.Bool(0.6) {
				cur = g.tips[r.Intn(len(g.tips))]
			} else {
				back := r.Range(1, 10)
				for k := 0; k < back && cur >= 0; k++ {
					cur = g.parent(cur)
				}
				if cur < 0 {
					cur = g.tips[0]
				}
			}
			g.head = cur
			p.Ops = append(p.Ops, Op{Kind: "head", Head: cur})
		case 3: // queries, indexer in whatever state it is
			op := Op{Kind: "query"}
			nq := r.Pick(3, 1) + 1
			for k := 0; k < nq; k++ {
				op.Queries = append(op.Queries, genQuery(r, g.num(cur), hist))
			}
			p.Ops = append(p.Ops, op)
		case 4: // wait idle, check coverage, query the idle index
			op := Op{Kind: "idle"}
			nq := r.Range(0, 2)
			for k := 0; k < nq; k++ {
				op.Queries = append(op.Queries, genQuery(r, g.num(cur), hist))
			}
			p.Ops = append(p.Ops, op)
		default: // restart with another history setting
			switch r.Pick(1, 2, 2) {
			case 0:
				hist = 0
			case 1:
				hist = uint64(r.Range(2, 40))
			}
			p.Ops = append(p.Ops, Op{Kind: "restart", History: hist})
		}
	}
	// some head operations are split: markers switched, 1-2 queries, then the target is delivered
	{
		h := g.num(p.StartHead)
		hs := p.History
		for i := range p.Ops {
			switch p.Ops[i].Kind {
			case "head":
				h = g.num(p.Ops[i].Head)
				if r.Bool(0.35) {
					nq := r.Pick(3, 1) + 1
					for k := 0; k < nq; k++ {
						p.Ops[i].Queries = append(p.Ops[i].Queries, genQuery(r, h, hs))
					}
					p.Ops[i].Lag = r.Pick(1, 2, 2, 1) * r.Range(1, 8)
				}
			case "restart":
				hs = p.Ops[i].History
			}
		}
	}
	// always end with an idle check and a query
	p.Ops = append(p.Ops, Op{Kind: "idle", Queries: []QuerySpec{genQuery(r, g.num(cur), hist)}})
	p.Tape = r.Tape(1500)
	return p
}

func Decode(b []byte) (any, error) {
	p := &Plan{}
	err := json.Unmarshal(b, p)
	return p, err
}

func clonePlan(p *Plan) *Plan {
	b, _ := json.Marshal(p)
	q := &Plan{}
	json.Unmarshal(b, q)
	return q
}

func Shrink(pl any) []any {
	p := pl.(*Plan)
	var out []any
	for _, ops := range simcore.ShrinkSlice(p.Ops) {
		q := clonePlan(p)
		q.Ops = ops
		out = append(out, q)
	}
	// drop queries inside ops
	for i, op := range p.Ops {
		if len(op.Queries) > 1 || (len(op.Queries) == 1 && (op.Kind == "idle" || op.Kind == "head")) {
			for j := range op.Queries {
				q := clonePlan(p)
				q.Ops[i].Queries = append(append([]QuerySpec{}, op.Queries[:j]...), op.Queries[j+1:]...)
				out = append(out, q)
			}
		}
	}
	// drop unreferenced trailing blocks
	maxRef := p.StartHead
	for _, op := range p.Ops {
		if op.Kind == "head" && op.Head > maxRef {
			maxRef = op.Head
		}
	}
	if maxRef+1 < len(p.Blocks) {
		q := clonePlan(p)
		q.Blocks = q.Blocks[:maxRef+1]
		out = append(out, q)
	}
	// empty the logs of single blocks that are off every referenced path is hard to
	// know statically; instead try removing the logs of the second half / single txs
	for i := range p.Blocks {
		if len(p.Blocks[i].Txs) > 0 && len(out) < 200 {
			q := clonePlan(p)
			q.Blocks[i].Txs = nil
			out = append(out, q)
		}
	}
	if p.HashScheme {
		q := clonePlan(p)
		q.HashScheme = false
		out = append(out, q)
	}
	for _, t := range simcore.ShrinkTape(p.Tape) {
		q := clonePlan(p)
		q.Tape = t
		out = append(out, q)
	}
	return out
}

// ---- chain model and shim

var chainConfig = params.TestChainConfig

func addrOf(i int) common.Address {
	var a common.Address
	a[0], a[1], a[19] = 0xA0, byte(i), byte(i+1)
	return a
}

func topicOf(i int) common.Hash {
	var h common.Hash
	h[0], h[1], h[31] = 0x70, byte(i), byte(i+1)
	return h
}

type blockRec struct {
	idx      int
	number   uint64
	hash     common.Hash
	parent   *blockRec
	block    *types.Block
	receipts types.Receipts
	logs     []*types.Log // fully derived, in block order (the reference)
}

type world struct {
	p   *Plan
	res *simcore.Result

	sched   *simsched.Sched
	chainDB ethdb.Database
	indexKV *simdisk.SimKV

	genesis *blockRec
	blocks  []*blockRec
	canon   []*blockRec // harness model of the canonical chain, by number

	fm      *filtermaps.FilterMaps
	params  filtermaps.Params
	history uint64
	sys     *filters.FilterSystem

	mu        sync.Mutex
	pmu       sync.Mutex
	nextQ     int
	getLogs   map[int]int // per query id: unindexed block scans
	obs       simcore.Hash64
	errLogs   []string
	lastFirst int64 // BlocksFirst at the previous idle point (-1 unknown)
	viol      *simcore.Violation
	offSeen   bool // the indexer switched itself off at some point of this run

	lastRange  rawdb.FilterMapsRange // last persisted index range (watched through the disk hook)
	haveRange  bool
	qobs       map[int]string
	clamped    map[int]map[uint64]bool // per query: blocks cut out by a clamped pointer lookup
	allocBomb  map[int]string          // per query: stopped before a wrapped-around allocation
	startedStale bool // see startFM
	indexWrites  int  // index write units so far (did the index change under a query?)
	maxTarget  uint64 // highest target head handed to the indexer since it was last known idle
	pulledDown map[uint64]uint32 // blocks that became "first indexed block" by the range being pulled down -> MapsFirst+1 at that moment
}

func (w *world) fail(v *simcore.Violation) {
	w.mu.Lock()
	if w.viol == nil {
		w.viol = v
	}
	w.mu.Unlock()
}

func (w *world) probe(name string) {
	w.pmu.Lock()
	w.res.Probe(name)
	w.pmu.Unlock()
}

func (w *world) failed() bool {
	w.mu.Lock()
	defer w.mu.Unlock()
	return w.viol != nil
}

func (w *world) observe(s string) {
	w.mu.Lock()
	w.obs = w.obs.String(s).String("\n")
	w.mu.Unlock()
	if trace || steps {
		fmt.Println("OBS", s)
	}
}

func (w *world) buildBlock(idx int, parent *blockRec, spec *BlockSpec) *blockRec {
	var (
		txs      types.Transactions
		receipts types.Receipts
		cum      uint64
		logIdx   uint
	)
	number := uint64(0)
	var ptime uint64
	var phash common.Hash
	if parent != nil {
		number = parent.number + 1
		ptime = parent.block.Time()
		phash = parent.hash
	}
	to := common.HexToAddress("0x00000000000000000000000000000000000c0de0")
	var specTxs [][]LogSpec
	if spec != nil {
		specTxs = spec.Txs
	}
	for ti, logs := range specTxs {
		tx := types.NewTx(&types.LegacyTx{Nonce: uint64(idx+1)<<16 | uint64(ti), To: &to, Gas: 100000, GasPrice: big.NewInt(params.InitialBaseFee), Value: new(big.Int)})
		cum += 30000
		rc := &types.Receipt{Type: tx.Type(), Status: types.ReceiptStatusSuccessful, CumulativeGasUsed: cum, GasUsed: 30000, TxHash: tx.Hash()}
		for li, ls := range logs {
			l := &types.Log{Address: addrOf(ls.A), Data: []byte{byte(idx), byte(ti), byte(li)}}
			l.Topics = make([]common.Hash, len(ls.T))
			for k, t := range ls.T {
				l.Topics[k] = topicOf(t)
			}
			rc.Logs = append(rc.Logs, l)
		}
		if rc.Logs == nil {
			rc.Logs = []*types.Log{}
		}
		rc.Bloom = types.CreateBloom(rc)
		txs = append(txs, tx)
		receipts = append(receipts, rc)
	}
	header := &types.Header{
		ParentHash: phash,
		UncleHash:  types.EmptyUncleHash,
		Number:     new(big.Int).SetUint64(number),
		GasLimit:   30_000_000,
		GasUsed:    cum,
		Time:       ptime + 12,
		Difficulty: new(big.Int),
		Extra:      []byte{byte(idx >> 8), byte(idx), 0x5a},
		BaseFee:    big.NewInt(params.InitialBaseFee),
	}
	block := types.NewBlock(header, &types.Body{Transactions: txs}, receipts, trie.NewStackTrie(nil))
	br := &blockRec{idx: idx, number: number, hash: block.Hash(), parent: parent, block: block, receipts: receipts}
	// the reference: what a direct scan of this block's receipts yields
	for ti, rc := range receipts {
		for _, l := range rc.Logs {
			cp := &types.Log{
				Address: l.Address, Topics: append([]common.Hash{}, l.Topics...), Data: append([]byte{}, l.Data...),
				BlockNumber: number, BlockHash: br.hash, TxHash: txs[ti].Hash(), TxIndex: uint(ti), Index: logIdx,
				BlockTimestamp: header.Time,
			}
			logIdx++
			br.logs = append(br.logs, cp)
		}
	}
	// store like a node stores any imported block
	rawdb.WriteBlock(w.chainDB, block)
	rawdb.WriteReceipts(w.chainDB, br.hash, number, receipts)
	return br
}

func (w *world) rec(i int) *blockRec {
	if i < 0 {
		return w.genesis
	}
	return w.blocks[i]
}

// setCanonical moves the canonical markers of the chain database to the branch
// ending at head, the way core.BlockChain does (number->hash index, head markers).
func (w *world) setCanonical(head *blockRec) (forkNumber uint64) {
	var path []*blockRec
	for b := head; b != nil; b = b.parent {
		path = append(path, b)
	}
	for i, j := 0, len(path)-1; i < j; i, j = i+1, j-1 {
		path[i], path[j] = path[j], path[i]
	}
	forkNumber = uint64(len(path))
	for i := range path {
		if i >= len(w.canon) || w.canon[i] != path[i] {
			forkNumber = uint64(i)
			break
		}
	}
	batch := w.chainDB.NewBatch()
	for n := uint64(len(path)); n < uint64(len(w.canon)); n++ {
		rawdb.DeleteCanonicalHash(batch, n)
	}
	for n := forkNumber; n < uint64(len(path)); n++ {
		rawdb.WriteCanonicalHash(batch, path[n].hash, n)
	}
	rawdb.WriteHeadHeaderHash(batch, head.hash)
	rawdb.WriteHeadBlockHash(batch, head.hash)
	if err := batch.Write(); err != nil {
		simcore.Harnessf("chain db write: %v", err)
	}
	w.canon = path
	return forkNumber
}

func (w *world) head() *blockRec { return w.canon[len(w.canon)-1] }

// chainShim is the filtermaps "blockchain" and the filters.Backend.
type chainShim struct{ w *world }

func (c *chainShim) GetHeader(hash common.Hash, number uint64) *types.Header {
	return rawdb.ReadHeader(c.w.chainDB, hash, number)
}
func (c *chainShim) GetCanonicalHash(number uint64) common.Hash {
	return rawdb.ReadCanonicalHash(c.w.chainDB, number)
}
func (c *chainShim) GetReceiptsByHash(hash common.Hash) types.Receipts {
	number, ok := rawdb.ReadHeaderNumber(c.w.chainDB, hash)
	if !ok {
		return nil
	}
	header := rawdb.ReadHeader(c.w.chainDB, hash, number)
	if header == nil {
		return nil
	}
	return rawdb.ReadReceipts(c.w.chainDB, hash, number, header.Time, chainConfig)
}
func (c *chainShim) GetRawReceipts(hash common.Hash, number uint64) types.Receipts {
	return rawdb.ReadRawReceipts(c.w.chainDB, hash, number)
}

func (c *chainShim) ChainDb() ethdb.Database { return c.w.chainDB }
func (c *chainShim) HeaderByNumber(ctx context.Context, n rpc.BlockNumber) (*types.Header, error) {
	var hash common.Hash
	var num uint64
	switch n {
	case rpc.LatestBlockNumber:
		hash = rawdb.ReadHeadBlockHash(c.w.chainDB)
		number, ok := rawdb.ReadHeaderNumber(c.w.chainDB, hash)
		if !ok {
			return nil, nil
		}
		num = number
	case rpc.FinalizedBlockNumber, rpc.SafeBlockNumber, rpc.PendingBlockNumber:
		return nil, errors.New("not supported by the shim")
	case rpc.EarliestBlockNumber:
		num = 0
		hash = rawdb.ReadCanonicalHash(c.w.chainDB, 0)
	default:
		num = uint64(n)
		hash = rawdb.ReadCanonicalHash(c.w.chainDB, num)
	}
	return rawdb.ReadHeader(c.w.chainDB, hash, num), nil
}
func (c *chainShim) HeaderByHash(ctx context.Context, hash common.Hash) (*types.Header, error) {
	number, ok := rawdb.ReadHeaderNumber(c.w.chainDB, hash)
	if !ok {
		return nil, nil
	}
	return rawdb.ReadHeader(c.w.chainDB, hash, number), nil
}
func (c *chainShim) GetBody(ctx context.Context, hash common.Hash, number rpc.BlockNumber) (*types.Body, error) {
	if body := rawdb.ReadBody(c.w.chainDB, hash, uint64(number)); body != nil {
		return body, nil
	}
	return nil, errors.New("block body not found")
}
func (c *chainShim) GetReceipts(ctx context.Context, hash common.Hash) (types.Receipts, error) {
	return c.GetReceiptsByHash(hash), nil
}
func (c *chainShim) GetLogs(ctx context.Context, hash common.Hash, number uint64) ([][]*types.Log, error) {
	c.w.mu.Lock()
	c.w.getLogs[c.w.curQ(ctx)]++
	c.w.mu.Unlock()
	return rawdb.ReadLogs(c.w.chainDB, hash, number), nil
}
func (c *chainShim) CurrentHeader() *types.Header {
	h, _ := c.HeaderByNumber(context.Background(), rpc.LatestBlockNumber)
	return h
}
func (c *chainShim) ChainConfig() *params.ChainConfig { return chainConfig }
func (c *chainShim) HistoryPruningCutoff() uint64     { return 0 }

var deadFeed event.Feed

func (c *chainShim) SubscribeNewTxsEvent(ch chan<- core.NewTxsEvent) event.Subscription {
	return deadFeed.Subscribe(ch)
}
func (c *chainShim) SubscribeChainEvent(ch chan<- core.ChainEvent) event.Subscription {
	return deadFeed.Subscribe(ch)
}
func (c *chainShim) SubscribeRemovedLogsEvent(ch chan<- core.RemovedLogsEvent) event.Subscription {
	return deadFeed.Subscribe(ch)
}
func (c *chainShim) SubscribeLogsEvent(ch chan<- []*types.Log) event.Subscription {
	return deadFeed.Subscribe(ch)
}
func (c *chainShim) CurrentView() *filtermaps.ChainView {
	head := c.CurrentHeader()
	if head == nil {
		return nil
	}
	return filtermaps.NewChainView(c, head.Number.Uint64(), head.Hash())
}
func (c *chainShim) NewMatcherBackend() filtermaps.MatcherBackend {
	c.w.mu.Lock()
	q := c.w.nextQ
	c.w.mu.Unlock()
	return &gatedMB{inner: c.w.fm.NewMatcherBackend(), w: c.w, q: q}
}

var errAllocBomb = errors.New("logsim: query stopped at the matcher-backend seam (first index above last index)")

const allocKey = "crash:matcher-allocates-wrapped-map-range-after-index-revert"

type qidKey struct{}

func (w *world) curQ(ctx context.Context) int {
	if v, ok := ctx.Value(qidKey{}).(int); ok {
		return v
	}
	return -1
}

// gatedMB is the matcher-backend seam: every call of a query into the log index
// is a scheduler gate.
type gatedMB struct {
	inner filtermaps.MatcherBackend
	w     *world
	q     int

	syncs    int
	ptrCalls int
	firstPtr uint64
	lastIdx  common.Range[uint64]
	haveLast bool
}

func (g *gatedMB) GetParams() *filtermaps.Params { return g.inner.GetParams() }
func (g *gatedMB) GetBlockLvPointer(ctx context.Context, n uint64) (uint64, error) {
	g.w.sched.Gate(fmt.Sprintf("q%d:lvptr:%d", g.q, n))
	p, err := g.inner.GetBlockLvPointer(ctx, n)
	// Signature of a recorded finding: a lookup beyond a NOT head-indexed block range is
	// answered with the pointer of blocks.Last(), the last FULLY indexed block, so that block
	// is cut out of the search although the valid range reported later still contains it.
	g.w.mu.Lock()
	if r := g.w.lastRange; g.w.haveRange && !r.HeadIndexed && r.BlocksAfterLast > r.BlocksFirst && n >= r.BlocksAfterLast {
		if g.w.clamped[g.q] == nil {
			g.w.clamped[g.q] = map[uint64]bool{}
		}
		g.w.clamped[g.q][r.BlocksAfterLast-1] = true
	}
	g.w.mu.Unlock()
	if trace {
		fmt.Printf("LVPTR q%d block %d -> %d %v\n", g.q, n, p, err)
	}
	// GetPotentialMatches asks for exactly two pointers: first block, block after the last.
	// If the index is reverted between the two, the second (clamped) answer can lie below the
	// first; with firstMap > lastMap inside one epoch matcherEnv.processEpoch then evaluates
	// make([]uint32, lm+1-fm) with a wrapped-around uint32 (~4G entries, 16 GB). That was
	// observed for real once (worker stuck in memclr); it must not be allowed to happen on a
	// shared machine, so the seam stops the query here and the harness reports the finding.
	g.ptrCalls++
	if err == nil {
		if g.ptrCalls%2 == 1 {
			g.firstPtr = p
		} else {
			last := p
			if last > 0 {
				last--
			}
			lv := g.w.p.LogValuesPerMap
			fm, lm := uint32(g.firstPtr>>lv), uint32(last>>lv)
			if fm > lm && fm>>g.w.p.LogMapsPerEpoch == lm>>g.w.p.LogMapsPerEpoch {
				g.w.mu.Lock()
				g.w.allocBomb[g.q] = fmt.Sprintf("first block pointer %d (map %d) > last pointer %d (map %d), same epoch %d: processEpoch would allocate %d map indices", g.firstPtr, fm, last, lm, fm>>g.w.p.LogMapsPerEpoch, lm+1-fm)
				g.w.mu.Unlock()
				return 0, errAllocBomb
			}
		}
	}
	return p, err
}
func (g *gatedMB) GetFilterMapRows(ctx context.Context, mapIndices []uint32, rowIndex uint32, baseLayerOnly bool) ([]filtermaps.FilterRow, error) {
	first, last := uint32(0), uint32(0)
	if len(mapIndices) > 0 {
		first, last = mapIndices[0], mapIndices[len(mapIndices)-1]
	}
	g.w.sched.Gate(fmt.Sprintf("q%d:rows:%d-%d/%d:%d:%v", g.q, first, last, len(mapIndices), rowIndex, baseLayerOnly))
	return g.inner.GetFilterMapRows(ctx, mapIndices, rowIndex, baseLayerOnly)
}
func (g *gatedMB) GetLogByLvIndex(ctx context.Context, lv uint64) (*types.Log, error) {
	g.w.sched.Gate(fmt.Sprintf("q%d:log:%d", g.q, lv))
	return g.inner.GetLogByLvIndex(ctx, lv)
}
func (g *gatedMB) SyncLogIndex(ctx context.Context) (filtermaps.SyncRange, error) {
	g.w.sched.Gate(fmt.Sprintf("q%d:sync:%d", g.q, g.syncs))
	sr, err := g.inner.SyncLogIndex(ctx)
	if trace {
		fmt.Printf("SYNC q%d #%d indexed=%v valid=%v err=%v range=%+v\n", g.q, g.syncs, sr.IndexedBlocks, sr.ValidBlocks, err, g.w.fm.VerifIndexedRange())
	}
	if err == nil {
		w := g.w
		w.mu.Lock()
		head := uint64(len(w.canon) - 1)
		if g.syncs == 0 {
			if sr.IndexedView == nil || sr.IndexedView.HeadNumber() != head || sr.IndexedBlocks.IsEmpty() || sr.IndexedBlocks.Last() != head {
				w.probe("query-index-behind-head")
			}
			if !sr.IndexedBlocks.IsEmpty() && sr.IndexedBlocks.First() > 0 {
				w.probe("query-tail-unindexed")
			}
		} else if g.haveLast && sr.ValidBlocks != g.lastIdx {
			w.probe("query-valid-range-trimmed")
		}
		if sr.IndexedView != nil && !sr.IndexedBlocks.IsEmpty() {
			// how far the indexed view agrees with the canonical chain
			n := sr.IndexedBlocks.Last()
			if n > sr.IndexedView.HeadNumber() {
				n = sr.IndexedView.HeadNumber()
			}
			if n >= uint64(len(w.canon)) || sr.IndexedView.BlockId(n) != w.canon[n].hash {
				w.probe("query-index-on-stale-fork")
			}
		}
		w.mu.Unlock()
		g.lastIdx, g.haveLast = sr.IndexedBlocks, true
	}
	g.syncs++
	return sr, err
}
func (g *gatedMB) Close() { g.inner.Close() }

// ---- log capture

type logCapture struct{ w *world }

func (h *logCapture) Enabled(_ context.Context, l slog.Level) bool { return l >= slog.LevelError }
func (h *logCapture) Handle(_ context.Context, r slog.Record) error {
	var sb strings.Builder
	sb.WriteString(r.Message)
	r.Attrs(func(a slog.Attr) bool {
		sb.WriteString(" " + a.Key + "=" + a.Value.String())
		return true
	})
	if r.Level >= log.LevelCrit {
		fmt.Println("CRIT-LOG " + sb.String())
		panic("CRIT-LOG " + sb.String())
	}
	h.w.mu.Lock()
	if len(h.w.errLogs) < 20 {
		h.w.errLogs = append(h.w.errLogs, sb.String())
	}
	h.w.mu.Unlock()
	return nil
}
func (h *logCapture) WithAttrs([]slog.Attr) slog.Handler { return h }
func (h *logCapture) WithGroup(string) slog.Handler      { return h }

// ---- run

var trace = os.Getenv("VERIF_TRACE") != ""

// crashKey names the recorded finding "indexer panics when the target head is shortened to
// the block the head renderer stands at" (see NOTES.md, F4).
var steps = os.Getenv("VERIF_STEPS") != ""

const crashKey = "crash:indexer-iterates-past-shortened-head"

func (w *world) startFM(view *filtermaps.ChainView) {
	w.maxTarget = max(w.maxTarget, w.head().number)
	// signature of a recorded finding: the persisted index says "head indexed" for an older,
	// lower head than the view the indexer is started with
	w.mu.Lock()
	w.startedStale = w.haveRange && w.lastRange.HeadIndexed && w.head().number >= w.lastRange.BlocksAfterLast
	w.mu.Unlock()
	cfg := filtermaps.Config{History: w.history, Disabled: w.p.Disabled, HashScheme: w.p.HashScheme}
	fm, err := filtermaps.NewFilterMaps(w.indexKV, view, 0, 0, w.params, cfg)
	if err != nil {
		simcore.Harnessf("NewFilterMaps: %v", err)
	}
	w.fm = fm
	w.indexKV.Hook = func(op *simdisk.KVOp) {
		// Watch the persisted index range: the recorded finding "first-indexed-block-starts-
		// in-unindexed-map" has a precise signature -- a range update that moves the first
		// indexed block DOWN and leaves the block range EMPTY [b,b): that is what
		// common.Range.SetAfterLast(b) does to a range whose first is above b. Only blocks
		// marked here are excused by that known finding.
		rs, ok, err := rawdb.ReadFilterMapsRange(w.indexKV.Mem())
		w.mu.Lock()
		if err == nil && ok && w.haveRange && rs.BlocksFirst < w.lastRange.BlocksFirst && rs.BlocksFirst == rs.BlocksAfterLast {
			w.pulledDown[rs.BlocksFirst] = rs.MapsFirst + 1
		}
		w.lastRange, w.haveRange = rs, err == nil && ok
		w.indexWrites++
		w.mu.Unlock()
		if trace {
			k := op.Key
			if op.Kind == simdisk.OpBatch && len(op.Batch) > 0 {
				k = op.Batch[0].Key
			}
			fmt.Printf("KVW kind=%d key=%x n=%d range=%+v\n", op.Kind, k, len(op.Batch), fm.VerifIndexedRangeUnlocked())
		}
	}
	fm.Start()
}

func (w *world) currentView() *filtermaps.ChainView {
	h := w.head()
	return filtermaps.NewChainView(&chainShim{w}, h.number, h.hash)
}

// drain lets the indexer run until it has consumed the pending target, so that
// its event select never has two ready channels (Go picks randomly among those).
func (w *world) drain() bool {
	for i := 0; ; i++ {
		w.sched.Gate("zz:drain")
		if !w.fm.VerifTargetPending() {
			return true
		}
		if w.fm.VerifDisabled() {
			return false
		}
		if i > 20000 {
			simcore.Harnessf("logsim: indexer never consumed its target")
		}
	}
}

// noteDisabled records that the indexer switched itself off ("reverting to unindexed
// mode"). The property is about query results, which must stay right in that state
// (the filter falls back to the unindexed search), so this is a probe, not a
// violation; the run goes on and keeps judging queries.
func (w *world) noteDisabled(where string) {
	if w.p.Disabled {
		return
	}
	w.mu.Lock()
	msgs := strings.Join(w.errLogs, " | ")
	first := !w.offSeen
	w.offSeen = true
	w.mu.Unlock()
	if !first {
		return
	}
	w.probe("indexer-switched-itself-off")
	if strings.Contains(msgs, "failed to create log iterator from block delimiter") && strings.Contains(msgs, "unindexed range") {
		// renderMapsBefore picked a cached render snapshot whose block lies below the indexed range
		w.probe("indexer-off:render-from-unindexed-snapshot")
	} else {
		w.probe("indexer-off:other")
	}
	w.observe(fmt.Sprintf("indexer off at %s: %s", where, classify(msgs)))
}

func classify(msg string) string {
	// strip numbers so that the key names the failing site, not the instance
	var sb strings.Builder
	for _, c := range msg {
		if c >= '0' && c <= '9' {
			continue
		}
		sb.WriteRune(c)
		if sb.Len() > 90 {
			break
		}
	}
	return sb.String()
}

func (w *world) resolve(q QuerySpec) (first, last uint64) {
	head := uint64(len(w.canon) - 1)
	res := func(n int64) uint64 {
		switch n {
		case int64(rpc.LatestBlockNumber):
			return head
		case int64(rpc.EarliestBlockNumber):
			return 0
		}
		if n < 0 {
			return 0
		}
		if uint64(n) > head {
			return head
		}
		return uint64(n)
	}
	first, last = res(q.Begin), res(q.End)
	return
}

// sanitise makes a query valid for the current head (plans shrink, heads move).
func (w *world) sanitise(q QuerySpec) QuerySpec {
	head := int64(len(w.canon) - 1)
	cl := func(n int64) int64 {
		if n >= 0 && n > head {
			return head
		}
		return n
	}
	q.Begin, q.End = cl(q.Begin), cl(q.End)
	f, l := w.resolve(q)
	if f > l {
		q.Begin = q.End
	}
	return q
}

func matches(l *types.Log, addrs []common.Address, topics [][]common.Hash) bool {
	if len(addrs) > 0 {
		ok := false
		for _, a := range addrs {
			if a == l.Address {
				ok = true
			}
		}
		if !ok {
			return false
		}
	}
	if len(topics) > len(l.Topics) {
		return false
	}
	for i, alt := range topics {
		if len(alt) == 0 {
			continue
		}
		ok := false
		for _, t := range alt {
			if t == l.Topics[i] {
				ok = true
			}
		}
		if !ok {
			return false
		}
	}
	return true
}

func logKey(l *types.Log) string {
	return fmt.Sprintf("%d/%x/%d/%d", l.BlockNumber, l.BlockHash[:4], l.TxIndex, l.Index)
}

func sameLog(a, b *types.Log) bool {
	if a.Address != b.Address || len(a.Topics) != len(b.Topics) || string(a.Data) != string(b.Data) ||
		a.BlockNumber != b.BlockNumber || a.BlockHash != b.BlockHash || a.TxHash != b.TxHash ||
		a.TxIndex != b.TxIndex || a.Index != b.Index || a.Removed != b.Removed || a.BlockTimestamp != b.BlockTimestamp {
		return false
	}
	for i := range a.Topics {
		if a.Topics[i] != b.Topics[i] {
			return false
		}
	}
	return true
}

func descLog(l *types.Log) string {
	return fmt.Sprintf("{block %d %x tx %d idx %d addr %x topics %d data %x}", l.BlockNumber, l.BlockHash[:4], l.TxIndex, l.Index, l.Address[:2], len(l.Topics), l.Data)
}

// runQuery executes one range query through eth/filters and judges it against
// the reference scan of the canonical chain (which is fixed while queries run).
func (w *world) runQuery(qid int, spec QuerySpec, phase string) {
	q := w.sanitise(spec)
	first, last := w.resolve(q)
	var addrs []common.Address
	for _, a := range q.Addrs {
		addrs = append(addrs, addrOf(a))
	}
	var topics [][]common.Hash
	for _, alt := range q.Topics {
		var hs []common.Hash
		for _, t := range alt {
			hs = append(hs, topicOf(t))
		}
		if hs == nil {
			hs = []common.Hash{}
		}
		topics = append(topics, hs)
	}
	// reference scan
	w.mu.Lock()
	canon := append([]*blockRec{}, w.canon...)
	w.nextQ = qid
	w.getLogs[qid] = 0
	writesAtStart := w.indexWrites
	w.mu.Unlock()
	var want []*types.Log
	for n := first; n <= last; n++ {
		for _, l := range canon[n].logs {
			if matches(l, addrs, topics) {
				want = append(want, l)
			}
		}
	}
	f := w.sys.NewRangeFilter(q.Begin, q.End, addrs, topics, 0)
	ctx := context.WithValue(context.Background(), qidKey{}, qid)
	got, err := f.Logs(ctx)
	w.mu.Lock()
	scans := w.getLogs[qid]
	w.mu.Unlock()
	if scans > 0 {
		w.probe("query-unindexed-scan")
	} else if len(canon) > 1 {
		w.probe("query-served-from-index-only")
	}
	w.probe("queries")
	matchAll := len(addrs) == 0
	for _, t := range topics {
		if len(t) > 0 {
			matchAll = false
		}
	}
	if matchAll {
		w.probe("query-match-all")
	}
	// concurrent queries finish in an order the simulator does not decide: their
	// observations are filed per query and hashed in query order after the operation
	w.mu.Lock()
	w.qobs[qid] = fmt.Sprintf("query %s q%d [%d,%d] -> %d logs err=%v", phase, qid, first, last, len(got), err)
	w.mu.Unlock()
	ctxs := fmt.Sprintf("%s query q%d begin=%d end=%d (resolved [%d,%d], head %d) addrs=%v topics=%v", phase, qid, q.Begin, q.End, first, last, len(canon)-1, q.Addrs, q.Topics)
	w.mu.Lock()
	bomb := w.allocBomb[qid]
	w.mu.Unlock()
	if bomb != "" {
		v := simcore.Violf("matcher-wrapped-allocation", "%s: the index was reverted between the two GetBlockLvPointer calls of GetPotentialMatches: %s (uint32 wrap-around in core/filtermaps/matcher.go processEpoch: make([]uint32, lm+1-fm)); the query was stopped at the seam instead of letting the process allocate ~16 GB", ctxs, bomb)
		v.Key = allocKey
		if simcore.IsKnown(v.Key) {
			w.mu.Lock()
			w.res.KnownHit(v.Key)
			w.mu.Unlock()
			return
		}
		w.fail(v)
		return
	}
	if err != nil {
		v := simcore.Violf("query-error", "%s returned error %q instead of %d logs", ctxs, err.Error(), len(want))
		v.Key = "query-error:" + classify(err.Error())
		// one recognised class: a block's log value pointer vanished under the query because
		// the tail epoch holding it was unindexed between SyncLogIndex and the lookup
		if i := strings.LastIndex(err.Error(), "failed to retrieve log value pointer of block "); i >= 0 && strings.HasSuffix(err.Error(), "not found") {
			var n uint64
			fmt.Sscanf(err.Error()[i:], "failed to retrieve log value pointer of block %d", &n)
			// (the persisted range seen through the disk hook is used, not a locked accessor of
			// the index: taking the index lock here would race with the indexer for it)
			w.mu.Lock()
			r, have := w.lastRange, w.haveRange
			w.mu.Unlock()
			if have && n < r.BlocksFirst {
				v.Key = "query-error:lv-pointer-deleted-by-tail-unindex"
				v.Msg += fmt.Sprintf(" (block %d is below the indexed range %d..%d now: its pointer was deleted by tail unindexing while the query ran)", n, r.BlocksFirst, r.BlocksAfterLast)
			} else if have && n >= r.BlocksAfterLast && r.BlocksFirst == r.BlocksAfterLast {
				// second recognised class: the head part of the index was reverted under the query
				// (reorg) and the indexed block range is EMPTY at the moment of the lookup;
				// GetBlockLvPointer only redirects lookups beyond the indexed range when the range
				// is non-empty, so it reads the deleted pointer of the block itself
				v.Key = "query-error:lv-pointer-deleted-by-head-revert-empty-range"
				v.Msg += fmt.Sprintf(" (indexed block range is empty [%d,%d) now: the pointer of block %d was deleted when the index head was reverted while the query ran)", r.BlocksFirst, r.BlocksAfterLast, n)
			}
		}
		// third recognised class: a potential match is resolved (GetLogByLvIndex ->
		// getLogByLvIndex) while the index is being reverted / tail-unindexed: the block search
		// is clamped to blocks.First(), which then lies above the last block of the map, and
		// the pointer of that first block (deleted by the head revert, not yet re-written) is read
		if strings.Contains(err.Error(), "failed to retrieve log at index") && strings.Contains(err.Error(), "failed to retrieve log value pointer of block") && strings.HasSuffix(err.Error(), "not found") {
			w.mu.Lock()
			changed := w.indexWrites > writesAtStart
			w.mu.Unlock()
			if changed {
				v.Key = "query-error:log-lookup-reads-deleted-lv-pointer-during-index-revert"
			}
		}
		if simcore.IsKnown(v.Key) {
			w.mu.Lock()
			w.res.KnownHit(v.Key)
			w.mu.Unlock()
			return
		}
		w.fail(v)
		return
	}
	if len(want) > 0 {
		w.probe("query-nonempty-result")
	}
	// classify a difference
	wantSet := map[string]*types.Log{}
	for _, l := range want {
		wantSet[logKey(l)] = l
	}
	seen := map[string]bool{}
	for i, l := range got {
		k := logKey(l)
		if seen[k] {
			w.fail(simcore.Violf("logs-duplicate", "%s: log %s returned twice (position %d of %d)", ctxs, descLog(l), i, len(got)))
			return
		}
		seen[k] = true
		ref, ok := wantSet[k]
		if !ok {
			w.fail(simcore.Violf("logs-extra", "%s: returned log %s at position %d is not in the reference scan of the canonical receipts (%d expected logs)", ctxs, descLog(l), i, len(want)))
			return
		}
		if !sameLog(ref, l) {
			w.fail(simcore.Violf("logs-fields", "%s: returned log %s differs from the canonical log %s", ctxs, descLog(l), descLog(ref)))
			return
		}
	}
	for _, l := range want {
		if !seen[logKey(l)] {
			v := simcore.Violf("logs-missing", "%s: canonical matching log %s is missing from the result (%d returned, %d expected)", ctxs, descLog(l), len(got), len(want))
			// one recognised class: the index claims its first block as fully indexed although
			// that block starts in a map of an unindexed (deleted) epoch
			w.mu.Lock()
			marked := w.pulledDown[l.BlockNumber]
			r, have := w.lastRange, w.haveRange
			w.mu.Unlock()
			// (judged against the map range at the moment the block was marked: a later tail
			// re-index may have repaired the state after this query's search)
			if marked != 0 && have {
				if ptr, err := rawdb.ReadBlockLvPointer(w.indexKV.Mem(), l.BlockNumber); err == nil && uint32(ptr>>w.p.LogValuesPerMap) < marked-1 {
					v.Key = "logs-missing:first-indexed-block-starts-in-unindexed-map"
					v.Msg += fmt.Sprintf(" (indexed range: blocks %d..%d, maps %d..%d; block %d starts at log value %d = map %d, which is unindexed)",
						r.BlocksFirst, r.BlocksAfterLast-1, r.MapsFirst, r.MapsAfterLast-1, l.BlockNumber, ptr, ptr>>w.p.LogValuesPerMap)
				}
			}
			w.mu.Lock()
			cl := w.clamped[qid][l.BlockNumber]
			w.mu.Unlock()
			if cl && v.Key == "logs-missing" {
				v.Key = "logs-missing:lookup-clamped-to-last-fully-indexed-block"
				v.Msg += fmt.Sprintf(" (during this query GetBlockLvPointer was asked for a block beyond a not-head-indexed range ending with block %d and answered with the START of block %d, cutting it out of the search; the valid range reported by the next SyncLogIndex still contained it)", l.BlockNumber, l.BlockNumber)
			}
			if simcore.IsKnown(v.Key) {
				w.mu.Lock()
				w.res.KnownHit(v.Key)
				w.mu.Unlock()
				return
			}
			w.fail(v)
			return
		}
	}
	for i := range want {
		if logKey(want[i]) != logKey(got[i]) {
			w.fail(simcore.Violf("logs-order", "%s: result is not in chain order at position %d: got %s want %s", ctxs, i, descLog(got[i]), descLog(want[i])))
			return
		}
	}
}

func (w *world) runQueries(qs []QuerySpec, phase string, base int) {
	w.startQueries(qs, phase, base)()
}

// startQueries starts the query actors and returns the function that waits for them
// and files their observations.
func (w *world) startQueries(qs []QuerySpec, phase string, base int) (wait func()) {
	if len(qs) == 0 {
		return func() {}
	}
	done := make(chan struct{}, len(qs))
	for i, q := range qs {
		i, q := i, q
		w.sched.Go(fmt.Sprintf("q%d", base+i), func() {
			defer func() { done <- struct{}{} }()
			w.runQuery(base+i, q, phase)
		})
	}
	return func() {
		for range qs {
			<-done
		}
		for i := range qs {
			w.mu.Lock()
			o := w.qobs[base+i]
			w.mu.Unlock()
			w.observe(o)
		}
	}
}

func (w *world) checkIdle(where string) {
	if w.p.Disabled {
		return
	}
	head := w.head().number
	if head == 0 {
		return // the indexer does not initialise on a genesis-only chain
	}
	w.fm.WaitIdle()
	w.maxTarget = head
	if w.fm.VerifDisabled() {
		// no coverage promise from an indexer that is off; queries are still judged
		w.noteDisabled(where)
		return
	}
	r := w.fm.VerifIndexedRange()
	var tail uint64
	if w.history > 0 && head >= w.history {
		tail = head + 1 - w.history
	}
	w.observe(fmt.Sprintf("idle %s head=%d hist=%d range=%+v", where, head, w.history, r))
	desc := fmt.Sprintf("%s: after WaitIdle with head %d, history %d: indexed range %+v", where, head, w.history, r)
	switch {
	case !r.Initialized || !r.HeadIndexed:
		w.fail(simcore.Violf("idle-head-not-indexed", "%s: head not indexed", desc))
	case r.BlocksAfterLast != head+1:
		if w.startedStale && r.BlocksAfterLast < head+1 {
			// Observation, not a violation (coordinator's decision: C40 is about query results,
			// which stay right here through the unindexed fallback): the indexer was started on a
			// persisted index marked head-indexed for a lower head; NewFilterMaps takes the
			// initial view as indexedView, so targetHeadIndexed() holds and nothing is rendered
			// until the next SetTarget.
			w.probe("idle-but-head-unindexed-after-start-with-advanced-head")
		} else {
			w.fail(simcore.Violf("idle-head-not-indexed", "%s: indexed blocks end at %d, want %d", desc, r.BlocksAfterLast, head+1))
		}
	case r.BlocksFirst > tail:
		w.fail(simcore.Violf("idle-tail-not-covered", "%s: first indexed block %d is above the tail target %d", desc, r.BlocksFirst, tail))
	}
	if r.BlocksFirst > 0 {
		w.probe("idle-tail-unindexed")
	}
	if w.lastFirst >= 0 && int64(r.BlocksFirst) < w.lastFirst {
		w.probe("idle-tail-reindexed")
	}
	w.lastFirst = int64(r.BlocksFirst)
	if r.MapsAfterLast > w.fm.VerifMapsPerEpoch() {
		w.probe("multi-epoch-index")
	}
	if r.TailPartialEpoch > 0 {
		w.probe("idle-tail-partial-epoch")
	}
	if w.fm.VerifOverflowRows(24) > 0 {
		w.probe("row-overflow")
	}
}

func Run(t *testing.T, pl any) *simcore.Result {
	p := pl.(*Plan)
	res := simcore.NewResult()
	w := &world{p: p, res: res, getLogs: map[int]int{}, obs: simcore.NewHash(), lastFirst: -1, history: p.History, pulledDown: map[uint64]uint32{}, qobs: map[int]string{}, clamped: map[int]map[uint64]bool{}, allocBomb: map[int]string{}}
	w.params = filtermaps.VerifParams(p.LogMapHeight, p.LogMapWidth, p.LogMapsPerEpoch, p.LogValuesPerMap, p.BaseRowGroupSize, p.BaseRowLengthRatio, p.LogLayerDiff)
	for i, b := range p.Blocks {
		if b.Parent >= i || b.Parent < -1 {
			simcore.Harnessf("logsim: bad plan: block %d has parent %d", i, b.Parent)
		}
	}
	if p.StartHead >= len(p.Blocks) {
		p.StartHead = len(p.Blocks) - 1
	}
	oldLog := log.Root()
	log.SetDefault(log.NewLogger(&logCapture{w}))
	defer log.SetDefault(oldLog)

	// The lock-aware quiescence detection of simsched (ModePoll) reads goroutine states
	// from runtime.Stack(all), which stops the world. A goroutine that wants to start a
	// GC cycle at that moment waits in state "semacquire" for the world semaphore the
	// dumper holds, and would be taken for blocked. No GC cycles while a world runs;
	// one explicit collection after each run, outside the bubble.
	oldGC := debug.SetGCPercent(-1)
	defer func() {
		debug.SetGCPercent(oldGC)
		runtime.GC()
	}()

	var stuck string
	dl := simsched.Bubble(t, func() {
		start := time.Now()
		w.chainDB = rawdb.NewDatabase(simdisk.NewSimKV(nil))
		w.indexKV = simdisk.NewSimKV(nil)
		w.sched = simsched.New(p.Tape, simsched.ModePoll)
		w.sched.MaxSteps = 60000
		if trace || steps {
			w.sched.KeepLog = true
		}
		w.indexKV.Sched = w.sched
		w.indexKV.GateWrites = true

		// the block tree, stored like imported blocks
		w.genesis = w.buildBlock(-1, nil, nil)
		rawdb.WriteCanonicalHash(w.chainDB, w.genesis.hash, 0)
		w.canon = []*blockRec{w.genesis}
		for i := range p.Blocks {
			w.blocks = append(w.blocks, w.buildBlock(i, w.rec(p.Blocks[i].Parent), &p.Blocks[i]))
		}
		w.setCanonical(w.rec(p.StartHead))
		w.sys = filters.NewFilterSystem(&chainShim{w}, filters.Config{})

		w.sched.Go("drv", func() {
			w.startFM(w.currentView())
			qbase := 0
			for oi, op := range p.Ops {
				if w.failed() {
					break
				}
				where := fmt.Sprintf("op %d (%s)", oi, op.Kind)
				switch op.Kind {
				case "head":
					if op.Head >= len(w.blocks) {
						continue
					}
					nh := w.rec(op.Head)
					if nh == w.head() {
						continue
					}
					oldHead := w.head().number
					// Recorded crash (known finding): if the target is shortened to an ancestor of
					// the previous target while the head renderer stands exactly at that block, the
					// log iterator steps past the new head and ChainView.BlockHash panics on the
					// indexer goroutine, taking the process down. With the finding recorded the
					// harness lets the indexer go idle first; without it the run crashes and is
					// reported by the driver.
					// (conservative: any head below the highest target handed over since the indexer
					// was last known idle -- it may still be rendering towards that one)
					if simcore.IsKnown(crashKey) && nh.number < w.maxTarget && !w.p.Disabled && oldHead > 0 {
						if w.drain() {
							w.fm.WaitIdle()
						}
						w.maxTarget = 0 // idle now: only the target set below counts
						w.probe("shortened-head-serialised-to-avoid-known-crash")
						w.mu.Lock()
						w.res.KnownHit(crashKey)
						w.mu.Unlock()
					}
					if len(op.Queries) > 0 && !w.drain() {
						w.noteDisabled(where)
					}
					fork := w.setCanonical(nh)
					if fork <= oldHead {
						w.probe("reorg")
						if oldHead+1-fork >= 8 {
							w.probe("reorg-depth>=8")
						}
					}
					if nh.number < oldHead {
						w.probe("head-moved-backwards")
					}
					w.observe(fmt.Sprintf("head -> %d (block %d) fork %d", nh.number, nh.idx, fork))
					waitLag := func() {}
					if len(op.Queries) > 0 {
						// The node writes the canonical markers first and tells the indexer afterwards
						// (chain event -> SetTarget): queries issued in between see the new chain while
						// the index still follows the old one (possibly an abandoned fork). The range
						// search of eth/filters retries until the index has caught up, so the target
						// must arrive while the queries run: this actor passes op.Lag gates first (the
						// label sorts first, so an exhausted tape delivers at once).
						w.probe("queries-before-target-delivery")
						if fork <= oldHead {
							w.probe("queries-before-target-delivery-after-reorg")
						}
						waitLag = w.startQueries(op.Queries, "lag", qbase)
						qbase += len(op.Queries)
						for i := 0; i < op.Lag; i++ {
							w.sched.Gate("a:deliver-target")
						}
					}
					w.maxTarget = max(w.maxTarget, nh.number)
					w.startedStale = false
					w.fm.SetTarget(w.currentView(), 0, 0)
					// quiescent point: an idle indexer picks the target up now, not in a real-time
					// race with the next operation of this actor
					w.sched.Gate("zz:target-set")
					waitLag()
				case "query":
					if !w.drain() {
						w.noteDisabled(where)
					}
					w.runQueries(op.Queries, "busy", qbase)
					qbase += len(op.Queries)
				case "idle":
					if !w.drain() {
						w.noteDisabled(where)
					}
					w.checkIdle(where)
					if !w.failed() {
						w.runQueries(op.Queries, "idle", qbase)
						qbase += len(op.Queries)
					}
				case "restart":
					if !w.drain() {
						w.noteDisabled(where)
					}
					w.fm.Stop()
					w.history = op.History
					w.probe("restart")
					w.observe(fmt.Sprintf("restart hist=%d", op.History))
					w.startFM(w.currentView())
				default:
					simcore.Harnessf("logsim: unknown op kind %q", op.Kind)
				}
			}
			w.drain()
			w.fm.Stop()
		})
		w.sched.Run()
		if w.sched.Err != nil {
			stuck = w.sched.Err.Error()
		}
		res.SimTimeNS = int64(time.Since(start))
	})
	res.SchedFP = w.sched.FP()
	res.Events = w.sched.Steps()
	res.NonTrivial = w.sched.Choices() >= 2 && res.Probes["queries"] > 0
	if trace || steps {
		for _, l := range w.sched.Trace {
			fmt.Println("STEP", l)
		}
	}
	if w.viol != nil {
		res.Fail(w.viol)
	}
	if dl != "" && res.Violation == nil {
		simcore.Harnessf("logsim: bubble deadlock: %s", dl)
	}
	if stuck != "" && res.Violation == nil {
		simcore.Harnessf("logsim scheduler: %s", stuck)
	}
	res.StateFP = uint64(w.obs)
	res.LogHash = uint64(simcore.NewHash().U64(uint64(w.obs)).U64(res.SchedFP))
	return res
}

func Checks() map[string]*simcore.Check {
	return map[string]*simcore.Check{"C40": {
		ID: "C40", Engine: "logsim", Level: "exploration",
		Rule: "plans = block tree (1-90 blocks, 0-30 logs per block over 4 addresses x 5 topics, 0-4 topics per log) + filtermaps Params drawn small (2-8 rows, 8-64 values per map, 1-8 maps per epoch, map width 8/16/24, base row groups 1-8) + History 0 or 2-40 + 5-16 ops (head extension, reorg depth 1-15, switch back / head moving backwards, 1-2 concurrent range queries while the indexer is in whatever state, WaitIdle + coverage check + queries, indexer restart with another History). Every index write unit of the indexer and every call of a query into the index (SyncLogIndex, GetBlockLvPointer, GetFilterMapRows, GetLogByLvIndex) is a gate released by the seeded tape. Non-trivial = a run with >=1 query and >=2 steps at which >=2 goroutines were parked; distinct = distinct (released-gate sequence, observation log) fingerprints.",
		Assumptions: []string{
			"the canonical chain is fixed while a query runs (head changes and queries are serialised at the operation level); the indexer is not",
			"the chain is a simulator-owned block tree stored through rawdb (headers, bodies, receipts, canonical markers); consensus validity of these blocks is not part of the property",
			"a SetTarget is consumed by the indexer before the next query / WaitIdle / Stop is issued, so that the indexer's event select has one ready channel",
		},
		Components: simcore.Components{
			Real: []string{"core/filtermaps.FilterMaps (indexer loop, map renderer, tail indexing/unindexing, checkRevertRange)", "core/filtermaps matcher + FilterMapsMatcherBackend + ChainView", "eth/filters.Filter / FilterSystem (rangeLogs search session, indexedLogs, unindexedLogs, logs cache)", "core/rawdb filtermaps and receipts accessors", "ethdb/memorydb under SimKV"},
			Stub: []string{"chain (block tree + canonical markers written by the harness; filters.Backend/ChainView shim mirrors BlockChain's readers)", "index disk (SimKV: logged, write units gated)", "matcher-backend seam (gating wrapper)", "clock (synctest bubble)"},
		},
		Perturbed: []string{
			"order in which the matcher's 4 worker goroutines pick up epoch tasks and Go map iteration order inside the matcher",
			"index reads (ungated) between two gates of the same goroutine",
		},
		Runs:       map[string]int{"quick": 1600, "thorough": 60000},
		Gen:        Gen, Decode: Decode, Run: Run, Shrink: Shrink,
		ProbeNames: []string{"queries", "query-nonempty-result", "query-index-behind-head", "query-tail-unindexed", "query-valid-range-trimmed", "query-unindexed-scan", "query-served-from-index-only", "query-match-all", "queries-before-target-delivery-after-reorg", "reorg", "reorg-depth>=8", "head-moved-backwards", "restart", "idle-tail-unindexed", "idle-tail-reindexed", "multi-epoch-index", "row-overflow", "indexer-switched-itself-off"},
	}}
}

var _ = sort.Ints
