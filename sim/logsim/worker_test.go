package logsim

import (
	"testing"

	"github.com/ethereum/go-ethereum/core"

	"verifsim/simcore"
	"verifsim/simsched"
)

func TestWorker(t *testing.T) {
	core.SenderCacher() // process-wide goroutine pool: force it before the first bubble
	simsched.Prologue()
	simcore.RunWorker(t, Checks())
}
