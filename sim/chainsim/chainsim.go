package chainsim

import (
	"encoding/json"
	"os"
	"testing"

	"github.com/ethereum/go-ethereum/core/rawdb"

	"verifsim/simcore"
	"verifsim/simsched"
)

// Plan is one explicit, replayable case: configuration, block tree, history and
// (C39) the crash sampling parameters.
type Plan struct {
	Knobs Knobs      `json:"knobs"`
	Nodes []NodeSpec `json:"nodes"`
	Ops   []Op       `json:"ops"`

	// C39 only
	Crash    bool   `json:"crash,omitempty"`
	CutSeed  uint64 `json:"cut_seed,omitempty"`
	MaxCuts  int    `json:"max_cuts,omitempty"`  // 0 = every cut
	Draws    int    `json:"draws,omitempty"`     // power-loss draws per cut
	KVLoss   bool   `json:"kv_loss,omitempty"`   // power loss also drops a suffix of the unsynced key-value units
	OnlyCut  uint64 `json:"only_cut,omitempty"`  // minimised replay: just this cut (sequence number + 1) ...
	OnlyDraw int    `json:"only_draw,omitempty"` // ... and this draw (0 = process crash)
	Nested   int    `json:"nested,omitempty"`    // second crashes cut into a recorded restart (per recorded restart)
}

func genKnobs(r *simcore.Rand, crash bool) Knobs {
	k := Knobs{Scheme: rawdb.HashScheme}
	if r.Bool(0.5) {
		k.Scheme = rawdb.PathScheme
	}
	k.Snapshots = r.Bool(0.5)
	if r.Bool(0.3) {
		k.TxLimit = 0
	} else {
		k.TxLimit = int64(r.Range(2, 8))
	}
	if k.Scheme == rawdb.HashScheme {
		k.Archive = r.Bool(0.35)
		if crash {
			k.Archive = r.Bool(0.6) // states on disk without waiting for a clean stop
		}
	} else {
		if r.Bool(0.6) {
			k.MaxDiff = r.Range(2, 12)
		}
		k.JournalFile = r.Bool(0.5)
		k.DirtyZero = r.Bool(0.5)
		k.NoAsync = r.Bool(0.5)
	}
	if r.Bool(0.6) {
		// log-uniform 50 .. 5000: a few hundred bytes reach ethdb.IdealBatchSize
		k.ValueScale = 50 << uint(r.Intn(7))
		k.ValueScale += r.Intn(k.ValueScale)
	}
	return k
}

func genTree(r *simcore.Rand, tier string) []NodeSpec {
	maxMain := 18
	if tier == "thorough" {
		maxMain = 30
	}
	var nodes []NodeSpec
	depth := []int{}
	heavy := r.Bool(0.15) // blocks with hundreds of logs: reorganisations drop more than 512 logs
	mkTxs := func(parent int) []TxSpec {
		// sometimes the same transactions as a sibling: the same tx hash on two forks
		if r.Bool(0.3) {
			for j := len(nodes) - 1; j >= 0; j-- {
				if nodes[j].Parent == parent && len(nodes[j].Txs) > 0 {
					return append([]TxSpec{}, nodes[j].Txs...)
				}
			}
		}
		// ... or as a sibling of the parent: the same tx hash at different heights on two forks
		// (same hash only if the sender's nonce is the same there)
		if parent >= 0 && r.Bool(0.2) {
			gp := nodes[parent].Parent
			for j := len(nodes) - 1; j >= 0; j-- {
				if j != parent && nodes[j].Parent == gp && len(nodes[j].Txs) > 0 {
					return append([]TxSpec{}, nodes[j].Txs...)
				}
			}
		}
		var txs []TxSpec
		if heavy && r.Bool(0.6) {
			// 150..400 logs from one call
			txs = append(txs, TxSpec{From: r.Intn(nAccounts), Kind: 2, Val: uint64(149 + r.Intn(250))})
		}
		for n := r.Pick(2, 3, 3, 2); n > 0; n-- {
			txs = append(txs, TxSpec{From: r.Intn(nAccounts), Kind: r.Pick(1, 1), To: r.Intn(nAccounts), Val: uint64(1 + r.Intn(1000))})
		}
		return txs
	}
	add := func(parent int) int {
		d := 1
		if parent >= 0 {
			d = depth[parent] + 1
		}
		nodes = append(nodes, NodeSpec{Parent: parent, Txs: mkTxs(parent)})
		depth = append(depth, d)
		return len(nodes) - 1
	}
	main := r.Range(3, maxMain)
	p := -1
	for i := 0; i < main; i++ {
		p = add(p)
	}
	forks := r.Range(1, 4)
	for f := 0; f < forks; f++ {
		// fork point: any existing node or genesis, biased towards the recent part of the main chain
		var at int
		switch r.Pick(3, 2, 1) {
		case 0:
			at = main - 1 - r.Intn(min(main, 4)) - 1 // parent of one of the last blocks (may be -1.. )
			if at < -1 {
				at = -1
			}
		case 1:
			at = r.Intn(len(nodes)+1) - 1
		default:
			at = -1 + r.Intn(min(len(nodes), 3)+1)
		}
		length := r.Range(1, 7)
		q := at
		for i := 0; i < length && len(nodes) < 60; i++ {
			d := 1
			if q >= 0 {
				d = depth[q] + 1
			}
			if d > 40 {
				break
			}
			q = add(q)
		}
	}
	// explicit equal-height competitor of a random node
	if r.Bool(0.7) && len(nodes) < 60 {
		add(nodes[r.Intn(len(nodes))].Parent)
	}
	return nodes
}

func genOps(r *simcore.Rand, k Knobs, nnodes int, tier string, crash bool) []Op {
	n := r.Range(6, 18)
	if tier == "thorough" {
		n = r.Range(6, 30)
	}
	if crash {
		n = r.Range(4, 10)
		if tier == "thorough" {
			n = r.Range(4, 16)
		}
	}
	var ops []Op
	// start by importing something
	ops = append(ops, Op{Kind: "insert", A: r.Intn(nnodes), B: 0, C: r.Intn(1000)})
	for len(ops) < n {
		a, c := r.Intn(1<<20), r.Intn(1000)
		weights := []int{10, 4, 3, 2, 2, 2, 2, 1, 3}
		if crash {
			// more durable states to crash on: commits, restarts, freezes
			weights = []int{10, 3, 2, 2, 3, 2, 4, 1, 1}
		}
		switch r.Pick(weights...) {
		case 0:
			if crash {
				// C39 judges crashes, not the import corner cases of C38: mostly plain imports
				ops = append(ops, Op{Kind: "insert", A: a, B: r.Pick(12, 1, 1, 1), C: c})
			} else {
				ops = append(ops, Op{Kind: "insert", A: a, B: r.Pick(6, 2, 2, 2), C: c})
			}
		case 1:
			ops = append(ops, Op{Kind: "setcanon", A: a})
		case 2:
			ops = append(ops, Op{Kind: "sethead", A: a})
		case 3:
			ops = append(ops, Op{Kind: "setfinal", A: a})
		case 4:
			o := Op{Kind: "reopen"}
			if crash && os.Getenv("VERIF_C39_CFGCHANGE") == "1" && r.Bool(0.4) {
				// opt-in (its alarms on the unchanged tree are not triaged yet, see NOTES.md); the
				// draw is not consumed when off, so the default plans are those of the triaged tier
				o.B = 1 // reopen with snapshots switched on / off
			}
			ops = append(ops, o)
		case 5:
			ops = append(ops, Op{Kind: "freeze"})
		case 6:
			ops = append(ops, Op{Kind: "commit", A: a})
			if crash && r.Bool(0.5) {
				// a rewind below the state that was just made durable (path scheme: below the disk
				// layer, inside the state history)
				ops = append(ops, Op{Kind: "sethead", A: r.Intn(1 << 20)})
			}
		case 7:
			if k.Scheme == rawdb.HashScheme && k.Snapshots {
				ops = append(ops, Op{Kind: "snapcap"})
			}
		case 8:
			// newPayload for a fork, then (usually) forkchoiceUpdated to it: one multi-block reorg
			ops = append(ops, Op{Kind: "payload", A: a, C: c})
			if r.Bool(0.7) {
				ops = append(ops, Op{Kind: "setcanon", A: r.Intn(1 << 20)})
			}
		}
	}
	return ops
}

func gen(crash bool) func(r *simcore.Rand, tier string) any {
	return func(r *simcore.Rand, tier string) any {
		p := &Plan{Knobs: genKnobs(r, crash), Crash: crash}
		p.Nodes = genTree(r, tier)
		p.Ops = genOps(r, p.Knobs, len(p.Nodes), tier, crash)
		if crash {
			p.CutSeed = r.Uint64()
			p.Draws = 1
			p.MaxCuts = 24
			p.Nested = 2
			if tier == "thorough" {
				p.Draws = 2
				p.MaxCuts = 0
				p.Nested = 4
			}
			if os.Getenv("VERIF_C39_NESTED") != "1" {
				// opt-in: one alarm class of the second-crash images is not triaged yet (NOTES.md)
				p.Nested = 0
			}
		}
		return p
	}
}

func decode(b []byte) (any, error) {
	p := &Plan{}
	return p, json.Unmarshal(b, p)
}

func clonePlan(p *Plan) *Plan {
	b, _ := json.Marshal(p)
	q := &Plan{}
	json.Unmarshal(b, q)
	return q
}

// dropNode removes leaf node i (nodes with children cannot be removed) and
// renumbers parents.
func dropNode(nodes []NodeSpec, i int) []NodeSpec {
	for _, n := range nodes {
		if n.Parent == i {
			return nil
		}
	}
	out := make([]NodeSpec, 0, len(nodes)-1)
	for j, n := range nodes {
		if j == i {
			continue
		}
		if n.Parent > i {
			n.Parent--
		}
		out = append(out, n)
	}
	return out
}

func shrink(pl any) []any {
	p := pl.(*Plan)
	var out []any
	for _, ops := range simcore.ShrinkSlice(p.Ops) {
		if len(ops) == 0 {
			continue
		}
		q := clonePlan(p)
		q.Ops = ops
		q.OnlyCut, q.OnlyDraw = 0, 0
		out = append(out, q)
	}
	// drop leaf blocks (last ones first); raw op arguments are resolved modulo at run time
	for i := len(p.Nodes) - 1; i >= 1 && len(out) < 120; i-- {
		if nodes := dropNode(p.Nodes, i); nodes != nil {
			q := clonePlan(p)
			q.Nodes = nodes
			q.OnlyCut, q.OnlyDraw = 0, 0
			out = append(out, q)
		}
	}
	// drop transactions
	for i, n := range p.Nodes {
		if len(n.Txs) > 0 && len(out) < 160 {
			q := clonePlan(p)
			q.Nodes[i].Txs = nil
			q.OnlyCut, q.OnlyDraw = 0, 0
			out = append(out, q)
		}
	}
	// simpler knobs
	if p.Knobs.MaxDiff != 0 || p.Knobs.JournalFile || p.Knobs.DirtyZero || p.Knobs.Archive || p.Knobs.Snapshots || p.Knobs.ValueScale != 0 {
		for _, f := range []func(k *Knobs){
			func(k *Knobs) { k.MaxDiff = 0 }, func(k *Knobs) { k.JournalFile = false }, func(k *Knobs) { k.DirtyZero = false },
			func(k *Knobs) { k.Archive = false }, func(k *Knobs) { k.Snapshots = false }, func(k *Knobs) { k.NoAsync = true },
			func(k *Knobs) { k.ValueScale = 0 },
		} {
			q := clonePlan(p)
			before := q.Knobs
			f(&q.Knobs)
			if q.Knobs != before {
				q.OnlyCut, q.OnlyDraw = 0, 0
				out = append(out, q)
			}
		}
	}
	return out
}

// runC38 executes a history and checks the invariants after every operation.
func runC38(t *testing.T, pl any) *simcore.Result {
	p := pl.(*Plan)
	prologue()
	res := simcore.NewResult()
	tree := buildTree(p.Nodes)
	var hp *simcore.HarnessPanic
	dead := simsched.Bubble(t, func() {
		defer func() {
			if r := recover(); r != nil {
				if h, ok := r.(simcore.HarnessPanic); ok {
					hp = &h
					return
				}
				panic(r)
			}
		}()
		runHistory(p, tree, res, true)
	})
	if hp != nil {
		panic(*hp)
	}
	if dead != "" && res.Violation == nil && len(res.Known) == 0 {
		simcore.Harnessf("bubble ended with %s", dead)
	}
	return res
}

// runHistory runs the operations of the plan on a fresh world.
func runHistory(p *Plan, tree *refTree, res *simcore.Result, bubble bool) {
	tracef("run %+v nodes=%d ops=%d", p.Knobs, len(p.Nodes), len(p.Ops))
	var w *world
	var err error
	if v := guard("open", func() *simcore.Violation {
		w, err = newWorld(p.Knobs, tree, res, bubble)
		if err != nil {
			return viol("fresh-open-failed", "opening a fresh chain failed: %v", err)
		}
		return nil
	}); v != nil {
		res.Fail(v)
		if w != nil {
			w.close()
		}
		return
	}
	defer w.close()
	w.quiesce()
	if v := guard("invariants", func() *simcore.Violation { return w.invariants(w.col.take(), w.bc.CurrentBlock().Hash(), true) }); v != nil {
		res.Fail(v)
		return
	}
	for i, op := range p.Ops {
		_, v := w.apply(op)
		if v != nil {
			if isKnown(v.Key) {
				res.KnownHit(v.Key)
				if v.Oracle == "logs-never-announced" || v.Oracle == "added-log-twice" {
					// the event model can be re-based; the history goes on
					if cv, v2 := w.canon(); v2 == nil {
						w.live = w.canonLogs(cv)
						continue
					}
				}
				break
			}
			v.Msg = "after operation " + itoa(i) + " (" + op.Kind + "): " + v.Msg
			res.Fail(v)
			return
		}
	}
	res.Events = int(w.clock.Now())
	res.LogHash = uint64(w.trace)
	res.StateFP = uint64(w.stateFP)
	res.NonTrivial = w.reorgs > 0
}

// treeFindings are violations of the unchanged tree that were triaged as genuine
// (NOTES.md). They are reported unless known_findings.jsonl lists their key;
// CHAINSIM_ASSUME_FINDINGS=1 (development only) treats them as listed.
var treeFindings = func() map[string]bool {
	m := map[string]bool{}
	for _, k := range []string{
		// C38
		"head-state-missing:reinsert-known-canonical-block-rolls-state-back",
		"logs-never-announced:known-block-made-head-again",
		"added-log-twice:already-canonical-block-made-head-again",
		"txlookup-wrong:stale-lookup-cache",
		"canon-above-head:header-head-was-ahead-of-block-head",
		"canon-above-head:reimport-of-pruned-canonical-blocks-rewinds-head-below-frozen",
		"canon-receipts-missing:unexecuted-sidechain-block-canonicalised",
		"logs-never-announced:unexecuted-sidechain-block-canonicalised",
		// C39: freezer-level causes already recorded under C24
		"reboot-failed:power-loss:torn-freezer-metadata",
		"reboot-failed:power-loss:non-prunable-table-nonzero-tail",
		"reboot-failed:process-crash:non-prunable-table-nonzero-tail",
		// C39
		"reboot-canon-gap:reorg-deletes-old-index-before-moving-head",
		"reboot-hang:reset-inside-repair-locks-chainmu-twice",
		"reboot-freezer-beyond-head:finalized-marker-above-head-after-interrupted-sethead",
		"reboot-log-crit:pathdb-gap-between-state-and-state-history",
		"reboot-canon-receipts-missing:unexecuted-sidechain-block-canonicalised",
		"reboot-panic:reset-on-missing-head-block-dereferences-nil-current-block",
		"reboot-open-failed:reorg-deletes-old-index-before-moving-head",
		"reboot-head-state-missing:sethead-to-genesis-interrupted-before-state-recovery",
		"reboot-canon-block-missing:partially-synced-freezer-tables-taken-for-pruned-history",
		"reboot-head-state-missing:genesis-block-written-before-async-state-flush",
		"reboot-chain-failed:genesis-state-on-disk-but-genesis-block-missing",
		"reboot-txlookup-wrong:stale-lookup-cache",
	} {
		m[k] = true
	}
	return m
}()

var assumeFindings = os.Getenv("CHAINSIM_ASSUME_FINDINGS") != ""

func isKnown(key string) bool {
	return simcore.IsKnown(key) || (assumeFindings && treeFindings[key])
}

func itoa(i int) string {
	b, _ := json.Marshal(i)
	return string(b)
}

func Checks() map[string]*simcore.Check {
	comps := simcore.Components{
		Real: []string{"core.BlockChain (InsertChain, insertSideChain, recoverAncestors, reorg, SetCanonical, SetHead/setHeadBeyondRoot, SetFinalized, Stop, NewBlockChain/loadLastState)",
			"core.HeaderChain, core.txIndexer + rawdb chain iterator, state processor / validator / EVM",
			"triedb hashdb and pathdb (layer tree, buffer flush, journal, state history freezer), state snapshot tree",
			"rawdb accessors, chain freezer and Freezer tables (recompiled with os.* -> simos.*)",
			"consensus/ethash in fake mode (header rules checked, no proof of work)"},
		Stub: []string{"key-value store = simdisk.SimKV over the real memorydb (op log, one atomic unit per batch)",
			"file system calls of the freezer / pathdb journal pass through simos to tmpfs and are recorded; fsync is modelled",
			"blocks come from core.GenerateChain over a 5-account genesis (reference tree), not from a network"},
	}
	perturbed := []string{
		"tx indexer goroutines, pathdb asynchronous buffer flush, snapshot generator, state prefetcher and trie commit workers run as real goroutines; the harness waits for quiescence (synctest.Wait) after every operation but does not decide their interleaving inside an operation",
		"Go map iteration order and select choice inside the tree under test",
	}
	return map[string]*simcore.Check{
		"C38": {
			ID: "C38", Engine: "chainsim", Level: "exploration",
			Rule: "plan = configuration (hash/path scheme, snapshots, tx lookup limit 0 or 2-8, archive, pathdb maxDiffLayers 2-12 or default, journal in file or KV, async flush) + reference block tree from core.GenerateChain (main chain 3-30, 1-4 forks at random ancestors, equal-height competitors, value transfers and log-emitting calls, the same transactions on sibling forks) + history of 6-30 operations (InsertChain in order / child-before-parent / known blocks / known prefix + new, partial side chains; SetCanonical of any stored block; SetHead; SetFinalized; Freeze; explicit state commit; snapshot flatten; clean Stop + reopen). After every operation, once the background goroutines are idle: canonical index parent-linked without gap from CurrentHeader to genesis and equal to the by-number accessors, nothing above the head, blocks/receipts up to CurrentBlock equal to the reference blocks, head state present, fully resolvable and equal to the reference state, CurrentHeader >= CurrentBlock, every tx lookup resolves to its canonical position (and must resolve inside the lookup window), live logs per LogsEvent/RemovedLogsEvent == logs of the canonical chain, ChainEvents name canonical reference blocks in order, last ChainHeadEvent == CurrentBlock. evaluations = histories; non-trivial = history with at least one reorganisation to a non-descendant; distinct = distinct (operation kind, resulting head) sequences.",
			Assumptions: []string{
				"the harness never asks for a reorganisation that would drop the finalized block (the consensus layer never does)",
				"SetHead and a restart emit no log events by design; the live-log model is re-based on the canonical chain after them",
				"SetCanonical is not called with the current head (the engine API never does)",
			},
			Components: comps, Perturbed: perturbed,
			Runs: map[string]int{"quick": 1600, "thorough": 60000},
			Gen:  gen(false), Decode: decode, Run: runC38, Shrink: shrink,
			ProbeNames: []string{"reorg", "reorg-equal-height", "removed-logs-event", "insert-on-pruned-parent", "insert-known-blocks", "child-before-parent-refused",
				"setcanonical-without-state", "setcanonical-ancestor", "sethead-below-frozen", "sethead-block-below-header", "freeze-moved-blocks",
				"explicit-state-commit", "snapshot-flattened", "restart", "lookup-resolved", "lookup-unindexed-below-limit"},
		},
		"C39": {
			ID: "C39", Engine: "chainsim", Level: "fault_enumeration",
			Rule: "plan = the C38 world and history generator (4-16 operations incl. explicit state commits, snapshot flattening, SetFinalized + Freeze, SetHead, clean restarts) executed once on the uncrashed twin; every mutation unit of the key-value store and every file mutation / fsync of the chain freezer, pathdb journal and state-history freezers is recorded with one shared sequence number. Each run is then cut at recorded sequence numbers (quick: seeded sample of 24 cuts biased to file events and operation boundaries; thorough: every cut) and each cut is materialised as a process-crash image (all units/events up to the cut) plus 1-2 power-loss images (key-value store loses a drawn suffix of the units after its last sync barrier; per file a drawn prefix of its unsynced writes, torn last write or zero-filled extension); rawdb.Open + core.NewBlockChain reboot on the image. evaluations = histories; reboots = crash states rebooted. Non-trivial = run with more than 2 reboots; distinct = distinct (cut, mode, rebooted head number) sequences.",
			Assumptions: []string{
				"key-value store: a batch is one atomic write-ahead-log record; after power loss a suffix of the units written since the last SyncKeyValue may be missing, never a unit in the middle",
				"files: directory-entry operations are durable immediately; file data is durable at fsync of that file (every Sync of the tree under test is seen); key-value store and files lose data independently",
				"the node is asked to reach the twin's head with InsertChain(blocks 1..head) followed, if the head differs, by SetCanonical(head): the target is the twin's head after the interrupted operation for InsertChain/SetCanonical, before it for every other operation",
				"with the hash scheme and snapshots the no-loss bound is taken below the snapshot disk-layer block (startup repair rewinds past it by design)",
			},
			Components: comps, Perturbed: perturbed,
			Runs: map[string]int{"quick": 320, "thorough": 9600},
			Gen:  gen(true), Decode: decode, Run: runC39, Shrink: shrink,
			ProbeNames: []string{"image-head-marker-below-disk-layer", "no-loss-bound-evaluated", "head-above-durable-state", "rebooted-at-genesis", "rebooted-above-genesis", "rebooted-with-frozen-blocks",
				"explicit-state-commit", "freeze-moved-blocks", "restart", "snapshot-flattened"},
		},
	}
}
