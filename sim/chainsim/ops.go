package chainsim

import (
	"context"
	"fmt"
	"strings"

	"github.com/ethereum/go-ethereum/common"
	"github.com/ethereum/go-ethereum/core/rawdb"
	"github.com/ethereum/go-ethereum/core/types"

	"verifsim/simcore"
)

// Op is one operation of a history. Arguments are raw draws that are resolved
// against the chain's state when the operation runs (so that a shrunk plan stays
// meaningful); the resolution is part of the run's event log.
type Op struct {
	Kind string `json:"k"` // insert | payload | setcanon | sethead | setfinal | reopen | freeze | commit | snapcap
	A    int    `json:"a,omitempty"`
	B    int    `json:"b,omitempty"` // insert: mode (0 in order, 1 child before parent, 2 re-import known, 3 known prefix + new); length cap
	C    int    `json:"c,omitempty"`
}

// resolved is what an operation turned into at run time (C39 re-applies these).
type resolved struct {
	kind    string
	blocks  []int  // insert: node indices
	node    int    // setcanon / setfinal target
	num     uint64 // sethead target / commit number
	skipped bool
	desc    string
	// canonical head (node) after the operation in the uncrashed run
	headAfter int
	startSeq  uint64 // clock before the operation
	endSeq    uint64 // clock after the operation (and quiescence)
	snaps     bool   // snapshots enabled after the operation (reopen may change the configuration)
}

func (w *world) known(n *refNode) bool {
	return w.bc.HasBlock(n.block.Hash(), n.depth)
}

// finalOK reports whether making node idx canonical keeps the finalized block and
// every frozen block canonical (the consensus layer never reorganises below
// finality, and frozen blocks are immutable).
func (w *world) finalOK(idx int) bool {
	if fin := w.bc.CurrentFinalBlock(); fin != nil {
		f := w.tree.nodeOf(fin.Hash())
		if f == -2 || !w.tree.isAncestorOrSelf(f, idx) {
			return false
		}
	}
	if frozen, _ := w.db.Ancients(); frozen > 1 {
		h := rawdb.ReadCanonicalHash(w.db, frozen-1)
		f := w.tree.nodeOf(h)
		if f == -2 || !w.tree.isAncestorOrSelf(f, idx) {
			return false
		}
	}
	return true
}

func errClass(err error) string {
	if err == nil {
		return "ok"
	}
	return classOf(err.Error())
}

// apply executes one operation, waits for quiescence and runs the invariants.
func (w *world) apply(op Op) (r resolved, v *simcore.Violation) {
	r.kind = op.Kind
	r.startSeq = w.clock.Now()
	t := w.tree
	bc := w.bc
	headBefore := bc.CurrentBlock().Hash()
	hdrBefore := bc.CurrentHeader().Hash()
	headerAhead := bc.CurrentHeader().Number.Uint64() > bc.CurrentBlock().Number.Uint64()
	headNumBefore := bc.CurrentBlock().Number.Uint64()
	rebase := false
	preKnown := map[int]bool{} // insert: blocks of the segment that were stored before the call
	preState := map[int]bool{} // ... and had their state available
	firstCanonPruned := false  // insert: the first block was canonical before the call and its state was not available
	canonBefore := w.canonHashes()
	note := func(format string, a ...any) {
		r.desc = fmt.Sprintf(format, a...)
	}
	switch op.Kind {
	case "insert":
		target := t.nodes[op.A%len(t.nodes)]
		if !w.finalOK(target.idx) {
			r.skipped = true
			note("insert node %d: would reorg below the finalized block", target.idx)
			break
		}
		path := t.path(target.idx)
		firstUnknown := len(path)
		for i, n := range path {
			if !w.known(n) {
				firstUnknown = i
				break
			}
		}
		mode := op.B % 4
		var seg []*refNode
		refuse := false
		switch {
		case mode == 1 && len(path)-firstUnknown >= 2:
			// child before parent: the first unknown block is left out
			seg = path[firstUnknown+1:]
			refuse = true
		case mode == 2 && firstUnknown > 0:
			// re-import of known blocks only
			from := op.C % firstUnknown
			seg = path[from:firstUnknown]
		case mode == 3 && firstUnknown > 0:
			from := op.C % firstUnknown
			seg = path[from:]
		default:
			seg = path[firstUnknown:]
			if len(seg) == 0 {
				seg = path[len(path)-1:]
			}
		}
		// optional length cap: import a side chain only partially
		if !refuse && op.C%3 == 1 && len(seg) > 1 {
			seg = seg[:1+op.C%len(seg)]
		}
		if last := seg[len(seg)-1]; !refuse && !w.finalOK(last.idx) {
			// the segment ends below the finalized / frozen block: importing it would make
			// the chain drop finalized blocks
			r.skipped = true
			note("insert up to node %d: would reorg below the finalized block", last.idx)
			break
		}
		for _, n := range seg {
			r.blocks = append(r.blocks, n.idx)
		}
		parent := t.blockOf(seg[0].parent)
		parentKnown := seg[0].parent == -1 || bc.HasBlock(parent.Hash(), parent.NumberU64())
		if !parentKnown && !refuse {
			simcore.Harnessf("insert: parent of first block unknown in mode %d", mode)
		}
		if parentKnown && !bc.HasState(parent.Root()) {
			w.res.Probe("insert-on-pruned-parent")
		}
		if firstUnknown == len(path) {
			w.res.Probe("insert-known-blocks")
		}
		note("insert nodes %v (#%d..#%d) mode %d refuse=%v", r.blocks, seg[0].depth, seg[len(seg)-1].depth, mode, refuse)
		for _, n := range seg {
			if w.known(n) {
				preKnown[n.idx] = true
				preState[n.idx] = bc.HasState(n.block.Root())
			}
		}
		firstCanonPruned = preKnown[seg[0].idx] && !preState[seg[0].idx] && int(seg[0].depth) < len(canonBefore) && canonBefore[seg[0].depth] == seg[0].block.Hash()
		before := w.indexFingerprint()
		var (
			n   int
			err error
		)
		if v = guard("InsertChain", func() *simcore.Violation { n, err = bc.InsertChain(t.blocks(seg)); return nil }); v != nil {
			return r, v
		}
		r.desc += fmt.Sprintf(" -> n=%d err=%s", n, errClass(err))
		if refuse {
			w.res.Probe("child-before-parent-refused")
			if err == nil {
				return r, viol("orphan-accepted", "InsertChain of %d blocks whose first block #%d has an unknown parent returned no error", len(seg), seg[0].depth)
			}
			w.quiesce()
			evs := w.col.take()
			if len(evs) != 0 {
				return r, viol("orphan-had-effect", "refused InsertChain (unknown parent) emitted %d events", len(evs))
			}
			if after := w.indexFingerprint(); after != before {
				return r, viol("orphan-had-effect", "refused InsertChain (unknown parent) changed the head markers or the canonical index")
			}
			if bc.HasBlock(seg[0].block.Hash(), seg[0].depth) {
				return r, viol("orphan-had-effect", "refused InsertChain (unknown parent) stored block #%d", seg[0].depth)
			}
		} else if err != nil {
			// not part of C38 (the invariants below must hold regardless); C39 judges re-imports
			w.res.Probe("insert-error-on-known-parent")
		} else if last := seg[len(seg)-1]; !w.known(last) || !bc.HasState(last.block.Root()) || !rawdb.HasReceipts(w.db, last.block.Hash(), last.depth) {
			// InsertChain returned nil without importing the whole batch (insertSideChain
			// stops at the first block that is not "pruned ancestor" and drops the rest)
			w.res.Probe("insert-nil-but-not-imported")
			w.silentDrop = true
		}
		if !refuse && err == nil {
			for _, n := range seg {
				if w.known(n) && !rawdb.HasReceipts(w.db, n.block.Hash(), n.depth) {
					// stored by insertSideChain without execution
					w.unexecuted[n.idx] = true
				}
			}
		}
	case "payload":
		// engine-API style: blocks are executed and stored without touching the head
		// (InsertBlockWithoutSetHead); a later SetCanonical switches to them in one reorg
		target := t.nodes[op.A%len(t.nodes)]
		path := t.path(target.idx)
		first := len(path)
		for i, n := range path {
			if !w.known(n) {
				first = i
				break
			}
		}
		if first == len(path) {
			r.skipped = true
			note("payload node %d: already stored", target.idx)
			break
		}
		seg := path[first:]
		if !w.finalOK(seg[0].idx) {
			// a payload on a fork that does not contain the finalized / frozen block is never sent
			// by the consensus layer (and the freezer deletes such forks behind BlockChain's caches)
			r.skipped = true
			note("payload node %d: fork does not contain the finalized block", target.idx)
			break
		}
		if !bc.HasState(t.blockOf(seg[0].parent).Root()) {
			// engine_newPayload only executes a payload whose parent state is available
			// (otherwise the payload is stashed): eth/catalyst delayPayloadImport
			r.skipped = true
			note("payload node %d: parent state not available", target.idx)
			break
		}
		if op.C%3 == 1 && len(seg) > 1 {
			seg = seg[:1+op.C%len(seg)]
		}
		if w.knobs.Scheme == rawdb.PathScheme {
			// a side fork that grows maxDiffLayers beyond its fork point flattens the head's own
			// layers away while the head does not move (the consensus layer never runs 128
			// payloads ahead of its fork choice): keep the fork shorter than that
			limit := 126
			if w.knobs.MaxDiff > 0 {
				limit = w.knobs.MaxDiff - 2
			}
			ca := uint64(0)
			for i := t.nodeOf(headBefore); i >= 0; i = t.nodes[i].parent {
				if t.isAncestorOrSelf(i, seg[0].idx) {
					ca = t.nodes[i].depth
					break
				}
			}
			for len(seg) > 0 && int(seg[len(seg)-1].depth-ca) > limit {
				seg = seg[:len(seg)-1]
			}
			if len(seg) == 0 {
				r.skipped = true
				note("payload node %d: fork would outgrow maxDiffLayers", target.idx)
				break
			}
		}
		for _, n := range seg {
			r.blocks = append(r.blocks, n.idx)
		}
		note("payload nodes %v (#%d..#%d)", r.blocks, seg[0].depth, seg[len(seg)-1].depth)
		for _, n := range seg {
			if bc.GetBlockByHash(n.block.Hash()) != nil {
				// engine_newPayload answers VALID for a block it already has without executing it
				// (eth/catalyst newPayload: GetBlockByHash short cut)
				w.res.Probe("payload-block-already-known")
				continue
			}
			var err error
			if v = guard("InsertBlockWithoutSetHead", func() *simcore.Violation {
				_, err = bc.InsertBlockWithoutSetHead(context.Background(), n.block, false)
				return nil
			}); v != nil {
				return r, v
			}
			if err != nil {
				r.desc += fmt.Sprintf(" -> #%d %s", n.depth, errClass(err))
				w.res.Probe("payload-error")
				break
			}
		}
		if cur := bc.CurrentBlock(); cur.Hash() != headBefore {
			// not stated by C38 (the invariants below judge whatever chain results): counted only.
			// Seen when a block of the batch is "known with state" (insertChain's known-block
			// path calls writeKnownBlock even with setHead=false).
			w.res.Probe("payload-moved-head")
		} else {
			w.res.Probe("payload-stored-without-head")
		}
	case "setcanon":
		var cands []int
		for _, n := range t.nodes {
			if n.block.Hash() != headBefore && w.known(n) && w.finalOK(n.idx) {
				cands = append(cands, n.idx)
			}
		}
		if len(cands) == 0 {
			r.skipped = true
			note("setcanon: no candidate")
			break
		}
		r.node = cands[op.A%len(cands)]
		n := t.nodes[r.node]
		if !bc.HasState(n.block.Root()) {
			w.res.Probe("setcanonical-without-state")
		}
		if cur := t.nodeOf(headBefore); cur >= 0 && t.isAncestorOrSelf(r.node, cur) {
			w.res.Probe("setcanonical-ancestor")
		}
		note("setcanon node %d #%d", r.node, n.depth)
		var err error
		if v = guard("SetCanonical", func() *simcore.Violation { _, err = bc.SetCanonical(n.block); return nil }); v != nil {
			return r, v
		}
		r.desc += " -> " + errClass(err)
		if err != nil {
			w.res.Probe("setcanonical-error")
		} else if cur := bc.CurrentBlock(); cur.Hash() != n.block.Hash() {
			return r, viol("setcanonical-head", "SetCanonical(#%d %x) returned nil but CurrentBlock is #%d %x", n.depth, n.block.Hash().Bytes()[:4], cur.Number, cur.Hash().Bytes()[:4])
		}
	case "sethead":
		hdr := bc.CurrentHeader().Number.Uint64()
		r.num = uint64(op.A) % (hdr + 2)
		frozen, _ := w.db.Ancients()
		if r.num+1 < frozen {
			w.res.Probe("sethead-below-frozen")
		}
		note("sethead %d (header head #%d, frozen %d)", r.num, hdr, frozen)
		var err error
		if v = guard("SetHead", func() *simcore.Violation { err = bc.SetHead(r.num); return nil }); v != nil {
			return r, v
		}
		r.desc += " -> " + errClass(err)
		if err != nil {
			w.res.Probe("sethead-error")
		} else if nh := bc.CurrentHeader().Number.Uint64(); r.num < hdr && nh > r.num {
			return r, viol("sethead-head", "SetHead(%d) returned nil but CurrentHeader is #%d", r.num, nh)
		}
		if bc.CurrentHeader().Number.Uint64() > bc.CurrentBlock().Number.Uint64() {
			w.res.Probe("sethead-block-below-header")
		}
		rebase = true
	case "setfinal":
		head := bc.CurrentBlock().Number.Uint64()
		if head == 0 {
			r.skipped = true
			note("setfinal: empty chain")
			break
		}
		n := 1 + uint64(op.A)%head
		if fin := bc.CurrentFinalBlock(); fin != nil && fin.Number.Uint64() > n {
			r.skipped = true
			note("setfinal #%d: below the current finalized block", n)
			break
		}
		h := bc.GetHeaderByNumber(n)
		if h == nil {
			simcore.Harnessf("setfinal: canonical header %d missing", n)
		}
		r.node = t.nodeOf(h.Hash())
		r.num = n
		note("setfinal #%d", n)
		if v = guard("SetFinalized", func() *simcore.Violation { bc.SetFinalized(h); return nil }); v != nil {
			return r, v
		}
		if fin := bc.CurrentFinalBlock(); fin == nil || fin.Hash() != h.Hash() || rawdb.ReadFinalizedBlockHash(w.db) != h.Hash() {
			return r, viol("setfinalized-lost", "SetFinalized(#%d) did not stick", n)
		}
	case "freeze":
		before, _ := w.db.Ancients()
		if v = guard("Freeze", func() *simcore.Violation {
			return errViol("freeze-failed", w.db.(interface{ Freeze() error }).Freeze())
		}); v != nil {
			return r, v
		}
		after, _ := w.db.Ancients()
		note("freeze: ancients %d -> %d", before, after)
		if after > before {
			w.res.Probe("freeze-moved-blocks")
		}
	case "commit":
		head := bc.CurrentBlock().Number.Uint64()
		n := uint64(op.A) % (head + 1)
		if w.knobs.Scheme == rawdb.PathScheme {
			// pathdb.Commit flattens everything into the disk layer and drops all other
			// layers: only the head may be committed without losing newer states
			n = head
		}
		h := bc.GetHeaderByNumber(n)
		if h == nil || !bc.HasState(h.Root) {
			r.skipped = true
			note("commit #%d: state not available", n)
			break
		}
		r.num = n
		r.node = t.nodeOf(h.Hash())
		note("commit state of #%d", n)
		// the commit is a stimulus, not part of the property: an error (e.g. "is disk
		// layer" in the path scheme) is recorded, not judged
		var cerr error
		if v = guard("TrieDB.Commit", func() *simcore.Violation { cerr = bc.TrieDB().Commit(h.Root, false); return nil }); v != nil {
			return r, v
		}
		r.desc += " -> " + errClass(cerr)
		if cerr == nil {
			w.res.Probe("explicit-state-commit")
		}
	case "snapcap":
		snaps := bc.Snapshots()
		head := bc.CurrentBlock()
		if snaps == nil || snaps.Snapshot(head.Root) == nil {
			r.skipped = true
			note("snapcap: no snapshot layer for the head")
			break
		}
		note("snapshot cap at head #%d", head.Number)
		var cerr error
		if v = guard("Snapshots.Cap", func() *simcore.Violation { cerr = snaps.Cap(head.Root, 0); return nil }); v != nil {
			return r, v
		}
		r.desc += " -> " + errClass(cerr)
		if cerr == nil {
			w.res.Probe("snapshot-flattened")
		}
	case "reopen":
		note("clean stop + reopen")
		journalFailed.Store("")
		if v = guard("Stop", func() *simcore.Violation { w.stopChain(); return nil }); v != nil {
			return r, v
		}
		if op.B == 1 {
			// the operator changes the configuration between two sessions
			w.knobs.Snapshots = !w.knobs.Snapshots
			note("snapshots enabled: %v", w.knobs.Snapshots)
			r.desc += fmt.Sprintf(" with snapshots=%v", w.knobs.Snapshots)
			w.res.Probe("restart-with-snapshot-config-changed")
		}
		if v = guard("reopen", func() *simcore.Violation {
			if err := w.open(); err != nil {
				return viol("clean-reopen-failed", "reopening after a clean Stop failed: %v", err)
			}
			return nil
		}); v != nil {
			return r, v
		}
		bc = w.bc
		var rv *simcore.Violation
		if cur := bc.CurrentBlock(); cur.Hash() != headBefore {
			rv = viol("restart-head-changed", "CurrentBlock was %x before a clean Stop and is #%d %x after reopening", headBefore[:4], cur.Number, cur.Hash().Bytes()[:4])
		} else if cur := bc.CurrentHeader(); cur.Hash() != hdrBefore {
			rv = viol("restart-head-changed", "CurrentHeader was %x before a clean Stop and is #%d %x after reopening", hdrBefore[:4], cur.Number, cur.Hash().Bytes()[:4])
		}
		if rv != nil {
			if jf, _ := journalFailed.Load().(string); jf == "layer stale" && w.knobs.Scheme == rawdb.PathScheme {
				// Stop could not write the pathdb journal because the layer tree holds a
				// dangling (stale) sibling layer: all in-memory states are lost
				rv.Key = "restart-head-changed:pathdb-journal-failed-layer-stale"
				rv.Msg += " (Stop logged: Failed to journal in-memory trie nodes err=layer stale)"
			}
			return r, rv
		}
		w.res.Probe("restart")
		rebase = true
	default:
		simcore.Harnessf("unknown op kind %q", op.Kind)
	}
	w.quiesce()
	evs := w.col.take()
	if v = guard("invariants", func() *simcore.Violation { return w.invariants(evs, headBefore, rebase) }); v != nil {
		// findings on the unchanged tree get their own keys (see NOTES.md)
		switch {
		case v.Oracle == "head-state-missing" && op.Kind == "insert" && firstCanonPruned && w.knobs.Scheme == rawdb.PathScheme && w.bc.CurrentBlock().Hash() == headBefore &&
			w.diskLayerRolledBackInto(r.blocks):
			// the batch started with an already-canonical block whose state was below the disk
			// layer; the head did not move, all diff layers are gone and the disk layer now sits
			// at (an ancestor of) a block of the batch: insertSideChain rolled the persistent
			// state back although there was nothing to import
			v.Key = "head-state-missing:reinsert-known-canonical-block-rolls-state-back"
		case v.Oracle == "canon-above-head" && op.Kind == "insert" && firstCanonPruned && w.belowFrozen():
			// InsertChain of already-canonical blocks whose state is pruned re-executes their
			// ancestors with setHead and leaves the head at the last re-executed block: below
			// blocks that are already frozen (and possibly finalized)
			v.Key = "canon-above-head:reimport-of-pruned-canonical-blocks-rewinds-head-below-frozen"
		case v.Oracle == "canon-above-head" && headerAhead && op.Kind != "sethead" && w.aboveIsLeftover(canonBefore):
			// the header head was above the block head (SetHead / repair left it there);
			// writeHeadBlock then moves the header head down without touching the index above:
			// every entry above the head is an entry of the old header chain
			v.Key = "canon-above-head:header-head-was-ahead-of-block-head"
		case v.Oracle == "head-state-incomplete" && w.knobs.Scheme == rawdb.PathScheme && strings.Contains(v.Msg, "layer stale"):
			// recorded as fixed by 5b767e1369 (layerTree.cap re-links the children of the
			// flattened layer): fires only on a regression
			v.Key = "head-state-incomplete:pathdb-dangling-sibling-layer-stale"
		case v.Oracle == "canon-receipts-missing" && w.knobs.Scheme == rawdb.HashScheme && w.unexecuted[w.badBlock]:
			// a side-chain block stored without execution became canonical because a state
			// with its root was already on disk (left by an earlier commit)
			v.Key = "canon-receipts-missing:unexecuted-sidechain-block-canonicalised"
		case v.Oracle == "logs-never-announced" && w.knobs.Scheme == rawdb.HashScheme && subset(w.missLogBlocks, w.unexecuted):
			v.Key = "logs-never-announced:unexecuted-sidechain-block-canonicalised"
		case v.Oracle == "logs-never-announced" && op.Kind == "insert" && subset(w.missLogBlocks, preState):
			// every unannounced log belongs to a block that was stored with its state before the
			// call (writeKnownBlock path)
			v.Key = "logs-never-announced:known-block-made-head-again"
		case (v.Oracle == "txlookup-wrong" || v.Oracle == "txlookup-noncanonical") && w.staleCacheHash != (common.Hash{}) && headerAhead &&
			t.isAncestorOrSelf(t.nodeOf(headBefore), t.nodeOf(w.bc.CurrentBlock().Hash())) &&
			w.staleCacheNum > headNumBefore && int(w.staleCacheNum) < len(canonBefore) && canonBefore[w.staleCacheNum] == w.staleCacheHash:
			// only the cache is wrong; before the operation the block head was below the header
			// head, the cached block sat in that header-only range of the canonical index, and the
			// new head descends from the old block head, i.e. every block was written on top of
			// the current block and reorg() (which purges the cache) never ran
			v.Key = "txlookup-wrong:stale-lookup-cache"
		case v.Oracle == "added-log-twice" && w.dupLogBlock != -2 && t.isAncestorOrSelf(w.dupLogBlock, t.nodeOf(headBefore)):
			// the re-announced block was canonical before the operation and still is
			v.Key = "added-log-twice:already-canonical-block-made-head-again"
		}
		if isKnown(v.Key) && (v.Oracle == "logs-never-announced" || v.Oracle == "added-log-twice") {
			// a recorded finding about the event stream only: note it, re-base the log model
			// on the canonical chain and finish the remaining checks of this operation
			w.res.KnownHit(v.Key)
			if v = guard("invariants", func() *simcore.Violation { return w.invariants(nil, w.bc.CurrentBlock().Hash(), true) }); v != nil {
				return r, v
			}
		} else {
			return r, v
		}
	}
	r.endSeq = w.clock.Now()
	r.headAfter = w.headNode
	r.snaps = w.knobs.Snapshots
	// bookkeeping for the evidence
	cur := w.bc.CurrentBlock()
	if cur.Hash() != headBefore {
		old := t.nodeOf(headBefore)
		if !t.isAncestorOrSelf(old, w.headNode) {
			w.reorgs++
			w.res.Probe("reorg")
			if old >= 0 && w.headNode >= 0 && t.nodes[old].depth == t.nodes[w.headNode].depth {
				w.res.Probe("reorg-equal-height")
			}
		}
	}
	w.trace = w.trace.String(r.desc).Bytes(cur.Hash().Bytes()).Bytes(w.bc.CurrentHeader().Hash().Bytes()).U64(uint64(len(evs)))
	for _, e := range evs {
		w.trace = w.trace.U64(uint64(e.kind))
		switch e.kind {
		case evChain:
			w.trace = w.trace.Bytes(e.chain.Header.Hash().Bytes())
		case evHead:
			w.trace = w.trace.Bytes(e.head.Header.Hash().Bytes())
		default:
			for _, l := range e.logs {
				w.trace = w.trace.Bytes(l.BlockHash.Bytes()).U64(uint64(l.Index))
			}
		}
	}
	w.stateFP = w.stateFP.String(op.Kind).U64(uint64(w.headNode + 2))
	w.opsDone++
	tracef("  op %-8s %s | head #%d node %d, header #%d, events %d", op.Kind, r.desc, cur.Number, w.headNode, w.bc.CurrentHeader().Number, len(evs))
	return r, nil
}

// canonHashes reads the canonical number->hash index (0 .. highest tree number + 2).
func (w *world) canonHashes() []common.Hash {
	out := make([]common.Hash, w.tree.maxNum+3)
	for n := range out {
		out[n] = rawdb.ReadCanonicalHash(w.db, uint64(n))
	}
	return out
}

// aboveIsLeftover: every canonical entry above the header head was there, unchanged,
// before the operation.
func (w *world) aboveIsLeftover(before []common.Hash) bool {
	hdr := w.bc.CurrentHeader().Number.Uint64()
	found := false
	for n := hdr + 1; n < uint64(len(before)); n++ {
		h := rawdb.ReadCanonicalHash(w.db, n)
		if h == (common.Hash{}) {
			continue
		}
		if h != before[n] {
			return false
		}
		found = true
	}
	return found
}

// diskLayerRolledBackInto: pathdb holds a single layer whose root is the state of
// the parent of the batch's first block or of one of the batch's blocks.
func (w *world) diskLayerRolledBackInto(blocks []int) bool {
	p := w.bc.TrieDB().VerifChainsimPathDB()
	if p == nil || len(blocks) == 0 {
		return false
	}
	root, layers := p.VerifChainsimBase()
	if layers != 1 {
		return false
	}
	if common.Hash(root) == w.tree.blockOf(w.tree.nodes[blocks[0]].parent).Root() {
		return true
	}
	for _, b := range blocks {
		if common.Hash(root) == w.tree.nodes[b].block.Root() {
			return true
		}
	}
	return false
}

func (w *world) belowFrozen() bool {
	frozen, _ := w.db.Ancients()
	return w.bc.CurrentHeader().Number.Uint64()+1 < frozen
}

func subset(xs []int, set map[int]bool) bool {
	for _, x := range xs {
		if !set[x] {
			return false
		}
	}
	return len(xs) > 0
}

func errViol(oracle string, err error) *simcore.Violation {
	if err == nil {
		return nil
	}
	return viol(oracle, "%v", err)
}

// indexFingerprint hashes the head markers and the canonical index.
func (w *world) indexFingerprint() uint64 {
	h := simcore.NewHash()
	h = h.Bytes(w.bc.CurrentBlock().Hash().Bytes()).Bytes(w.bc.CurrentHeader().Hash().Bytes())
	for n := uint64(0); n <= w.tree.maxNum+2; n++ {
		c := rawdb.ReadCanonicalHash(w.db, n)
		h = h.Bytes(c[:])
	}
	return uint64(h)
}

var _ types.Blocks
