package chainsim

import (
	"bytes"
	"fmt"
	"sort"

	"github.com/ethereum/go-ethereum/common"
	"github.com/ethereum/go-ethereum/core"
	"github.com/ethereum/go-ethereum/core/rawdb"
	"github.com/ethereum/go-ethereum/core/types"

	"verifsim/simcore"
)

func viol(oracle, format string, a ...any) *simcore.Violation {
	return simcore.Violf(oracle, format, a...)
}

// canon reads the canonical index from the header head down to genesis and
// checks the policy-free structure: no gap, parent-linked, agrees with the
// by-number accessors, blocks up to the block head complete and equal to the
// reference blocks, nothing above the header head.
func (w *world) canon() (*canonView, *simcore.Violation) {
	bc := w.bc
	head, hdr := bc.CurrentBlock(), bc.CurrentHeader()
	if head == nil || hdr == nil {
		return nil, viol("head-nil", "CurrentBlock=%v CurrentHeader=%v", head, hdr)
	}
	if hdr.Number.Uint64() < head.Number.Uint64() {
		return nil, viol("header-below-block", "CurrentHeader #%d is below CurrentBlock #%d", hdr.Number, head.Number)
	}
	cv := &canonView{head: head.Number.Uint64(), hdr: hdr.Number.Uint64()}
	cv.nodes = make([]int, cv.hdr+1)
	var childParent common.Hash
	for n := cv.hdr; ; n-- {
		h := rawdb.ReadCanonicalHash(w.db, n)
		if h == (common.Hash{}) {
			w.gapAt = n
			return nil, viol("canon-gap", "no canonical hash at #%d (block head #%d, header head #%d)", n, cv.head, cv.hdr)
		}
		if g := bc.GetCanonicalHash(n); g != h {
			return nil, viol("canon-accessor-mismatch", "GetCanonicalHash(%d)=%x, database has %x", n, g[:4], h[:4])
		}
		header := bc.GetHeaderByNumber(n)
		if header == nil {
			return nil, viol("canon-header-missing", "GetHeaderByNumber(%d)=nil but canonical hash is %x", n, h[:4])
		}
		if header.Hash() != h || header.Number.Uint64() != n {
			return nil, viol("canon-header-mismatch", "GetHeaderByNumber(%d) is #%d %x, canonical hash %x", n, header.Number, header.Hash().Bytes()[:4], h[:4])
		}
		if n == cv.hdr && h != hdr.Hash() {
			return nil, viol("canon-head-mismatch", "canonical hash at header head #%d is %x, CurrentHeader is %x", n, h[:4], hdr.Hash().Bytes()[:4])
		}
		if n == cv.head && h != head.Hash() {
			return nil, viol("block-head-not-canonical", "canonical hash at #%d is %x, CurrentBlock is %x", n, h[:4], head.Hash().Bytes()[:4])
		}
		if n < cv.hdr && childParent != h {
			return nil, viol("canon-not-parent-linked", "canonical #%d has parent %x but canonical #%d is %x", n+1, childParent[:4], n, h[:4])
		}
		childParent = header.ParentHash
		node := w.tree.nodeOf(h)
		if node == -2 {
			return nil, viol("canon-unknown-block", "canonical #%d %x is not a block of the reference tree", n, h[:4])
		}
		cv.nodes[n] = node
		if n <= cv.head {
			blk := bc.GetBlockByNumber(n)
			if blk == nil {
				return nil, viol("canon-block-missing", "GetBlockByNumber(%d)=nil at or below the block head #%d", n, cv.head)
			}
			if blk.Hash() != h {
				return nil, viol("canon-block-mismatch", "GetBlockByNumber(%d) is %x, canonical hash %x", n, blk.Hash().Bytes()[:4], h[:4])
			}
			if node >= 0 {
				ref := w.tree.nodes[node]
				txs := blk.Transactions()
				if len(txs) != len(ref.txs) {
					return nil, viol("canon-body-mismatch", "canonical #%d has %d transactions, reference block has %d", n, len(txs), len(ref.txs))
				}
				for i, tx := range txs {
					if tx.Hash() != ref.txs[i] {
						return nil, viol("canon-body-mismatch", "canonical #%d tx %d differs from the reference block", n, i)
					}
				}
				rcs := bc.GetReceiptsByHash(h)
				if rcs == nil || len(rcs) != len(ref.txs) {
					w.badBlock = node
					return nil, viol("canon-receipts-missing", "canonical #%d %x: %d receipts for %d transactions", n, h[:4], len(rcs), len(ref.txs))
				}
				var logs []*types.Log
				for _, r := range rcs {
					logs = append(logs, r.Logs...)
				}
				if len(logs) != len(ref.logs) {
					return nil, viol("canon-receipts-mismatch", "canonical #%d: receipts hold %d logs, reference %d", n, len(logs), len(ref.logs))
				}
				for i, l := range logs {
					if d := logDiff(l, ref.logs[i]); d != "" {
						return nil, viol("canon-receipts-mismatch", "canonical #%d log %d: %s", n, i, d)
					}
				}
			}
		}
		if n == 0 {
			if h != w.tree.genesis.Hash() {
				return nil, viol("canon-genesis-mismatch", "canonical #0 is %x", h[:4])
			}
			break
		}
	}
	for n := cv.hdr + 1; n <= w.tree.maxNum+2 && !w.crashed; n++ {
		if h := rawdb.ReadCanonicalHash(w.db, n); h != (common.Hash{}) {
			fin := "none"
			if f := bc.CurrentFinalBlock(); f != nil {
				fin = fmt.Sprintf("#%d", f.Number)
			}
			return nil, viol("canon-above-head", "canonical hash %x (node %d) at #%d above the header head #%d (finalized %s)", h[:4], w.tree.nodeOf(h), n, cv.hdr, fin)
		}
	}
	return cv, nil
}

func logDiff(got, ref *types.Log) string {
	switch {
	case got.Address != ref.Address:
		return "address differs"
	case !bytes.Equal(got.Data, ref.Data):
		return "data differs"
	case len(got.Topics) != len(ref.Topics):
		return "topic count differs"
	case got.BlockHash != ref.BlockHash:
		return fmt.Sprintf("block hash %x, reference %x", got.BlockHash[:4], ref.BlockHash[:4])
	case got.BlockNumber != ref.BlockNumber:
		return "block number differs"
	case got.TxHash != ref.TxHash:
		return "tx hash differs"
	case got.TxIndex != ref.TxIndex:
		return "tx index differs"
	case got.Index != ref.Index:
		return fmt.Sprintf("log index %d, reference %d", got.Index, ref.Index)
	}
	for i := range got.Topics {
		if got.Topics[i] != ref.Topics[i] {
			return "topic differs"
		}
	}
	return ""
}

// checkState: the head state is available, fully resolvable and equal to the
// reference state of that block.
func (w *world) checkState() *simcore.Violation {
	head := w.bc.CurrentBlock()
	node := w.tree.nodeOf(head.Hash())
	if node == -2 {
		return viol("canon-unknown-block", "CurrentBlock %x is not a block of the reference tree", head.Hash().Bytes()[:4])
	}
	if !w.bc.HasState(head.Root) {
		// the one documented exception: path scheme, genesis, below the pivot (never here)
		_, err := w.bc.TrieDB().NodeReader(head.Root)
		extra := ""
		if p := w.bc.TrieDB().VerifChainsimPathDB(); p != nil {
			extra = "; pathdb " + p.VerifChainsimLayers()
		}
		return viol("head-state-missing", "HasState(root of CurrentBlock #%d)=false (%v%s)", head.Number, err, extra)
	}
	if err := walkTrie(w.bc, head.Root); err != nil {
		return viol("head-state-incomplete", "state of CurrentBlock #%d does not resolve: %v", head.Number, err)
	}
	sdb, err := w.bc.StateAt(head)
	if err != nil {
		return viol("head-state-missing", "StateAt(CurrentBlock #%d): %v", head.Number, err)
	}
	if got, want := readout(sdb, w.universe), w.tree.refReadout(node); got != want {
		return viol("head-state-wrong", "state at CurrentBlock #%d differs from the reference state\n got  %s\n want %s", head.Number, got, want)
	}
	return nil
}

// lookupFloor is the lowest block number whose transactions must be indexed once
// the indexer is idle.
func (w *world) lookupFloor(head uint64) uint64 {
	l := uint64(w.knobs.TxLimit)
	if l == 0 || head < l {
		return 0
	}
	return head - l + 1
}

// checkLookups: every transaction lookup that resolves points at the canonical
// block containing the transaction; inside the indexed window it must resolve.
func (w *world) checkLookups(cv *canonView, idle bool) *simcore.Violation {
	w.staleCacheHash = common.Hash{}
	type home struct {
		num  uint64
		idx  int
		hash common.Hash
	}
	homes := map[common.Hash]home{}
	for n := uint64(1); n <= cv.hdr; n++ {
		ref := w.tree.nodes[cv.nodes[n]]
		for i, h := range ref.txs {
			homes[h] = home{n, i, ref.block.Hash()}
		}
	}
	floor := w.lookupFloor(cv.head)
	for _, h := range w.tree.txOrder {
		lk, tx := w.bc.GetCanonicalTransaction(h)
		hm, canonical := homes[h]
		if lk != nil {
			if !canonical {
				if dbtx, _, _, _ := rawdb.ReadCanonicalTransaction(w.db, h); dbtx == nil {
					w.staleCacheNum, w.staleCacheHash = lk.BlockIndex, lk.BlockHash
					return viol("txlookup-noncanonical", "GetCanonicalTransaction(%x) gives #%d %x from its cache; the tx is not in the canonical chain and the database does not resolve it", h[:4], lk.BlockIndex, lk.BlockHash[:4])
				}
				return viol("txlookup-noncanonical", "lookup of tx %x resolves to #%d %x but the tx is not in the canonical chain", h[:4], lk.BlockIndex, lk.BlockHash[:4])
			}
			if lk.BlockHash != hm.hash || lk.BlockIndex != hm.num || lk.Index != uint64(hm.idx) || tx == nil || tx.Hash() != h {
				if dbtx, dbHash, dbNum, dbIdx := rawdb.ReadCanonicalTransaction(w.db, h); dbtx == nil || (dbHash == hm.hash && dbNum == hm.num && dbIdx == uint64(hm.idx)) {
					// the database resolves the transaction correctly (or, unindexed, not at all),
					// BlockChain's lookup cache answers with a block that is no longer canonical
					w.staleCacheNum, w.staleCacheHash = lk.BlockIndex, lk.BlockHash
					return viol("txlookup-wrong", "GetCanonicalTransaction(%x) gives #%d %x index %d from its cache, the database (and the canonical chain) say #%d %x index %d", h[:4], lk.BlockIndex, lk.BlockHash[:4], lk.Index, hm.num, hm.hash[:4], hm.idx)
				}
				return viol("txlookup-wrong", "lookup of tx %x gives #%d %x index %d, canonical position is #%d %x index %d", h[:4], lk.BlockIndex, lk.BlockHash[:4], lk.Index, hm.num, hm.hash[:4], hm.idx)
			}
			rc, err := w.bc.GetCanonicalReceipt(tx, lk.BlockHash, lk.BlockIndex, lk.Index)
			if err != nil || rc == nil {
				return viol("txlookup-receipt-missing", "receipt of tx %x at #%d index %d: %v", h[:4], lk.BlockIndex, lk.Index, err)
			}
			ref := w.tree.nodes[cv.nodes[hm.num]].receipts[hm.idx]
			if rc.TxHash != h || rc.BlockHash != hm.hash || len(rc.Logs) != len(ref.Logs) || rc.Status != ref.Status || rc.GasUsed != ref.GasUsed {
				return viol("txlookup-receipt-wrong", "receipt of tx %x at #%d differs from the reference receipt", h[:4], lk.BlockIndex)
			}
			w.res.Probe("lookup-resolved")
			continue
		}
		if canonical && idle && hm.num <= cv.head && hm.num >= floor {
			tail := rawdb.ReadTxIndexTail(w.db)
			ts := "nil"
			if tail != nil {
				ts = fmt.Sprint(*tail)
			}
			return viol("txlookup-missing", "tx %x of canonical #%d does not resolve although the indexer is idle (head #%d, limit %d, required from #%d, stored tail %s)", h[:4], hm.num, cv.head, w.knobs.TxLimit, floor, ts)
		}
		if canonical && hm.num < floor {
			w.res.Probe("lookup-unindexed-below-limit")
		}
	}
	return nil
}

// canonLogs is the set of logs of the canonical blocks 1..head.
func (w *world) canonLogs(cv *canonView) map[logKey]bool {
	out := map[logKey]bool{}
	for n := uint64(1); n <= cv.head; n++ {
		ref := w.tree.nodes[cv.nodes[n]]
		for _, l := range ref.logs {
			out[logKey{ref.block.Hash(), l.Index}] = true
		}
	}
	return out
}

// applyEvents folds the events of one operation into the live-log set and
// checks the chain / head events against the canonical chain after the operation.
func (w *world) applyEvents(evs []chainEv, cv *canonView, headBefore common.Hash) *simcore.Violation {
	var (
		chainEvs []core.ChainEvent
		lastHead *types.Header
	)
	for _, e := range evs {
		switch e.kind {
		case evRemoved:
			w.res.Probe("removed-logs-event")
			for _, l := range e.logs {
				ref, d := w.refLog(l)
				if ref == nil {
					return viol("removed-log-unknown", "RemovedLogsEvent: %s", d)
				}
				if !l.Removed {
					return viol("removed-log-flag", "RemovedLogsEvent carries a log of block %x with Removed=false", l.BlockHash[:4])
				}
				k := logKey{l.BlockHash, l.Index}
				if !w.live[k] {
					return viol("removed-log-not-live", "RemovedLogsEvent removes log %d of block #%d %x which was never announced (or already removed)", l.Index, l.BlockNumber, l.BlockHash[:4])
				}
				delete(w.live, k)
			}
		case evLogs:
			for _, l := range e.logs {
				ref, d := w.refLog(l)
				if ref == nil {
					return viol("added-log-unknown", "LogsEvent: %s", d)
				}
				if l.Removed {
					return viol("added-log-flag", "LogsEvent carries a log of block %x with Removed=true", l.BlockHash[:4])
				}
				k := logKey{l.BlockHash, l.Index}
				if w.live[k] {
					w.dupLogBlock = w.tree.nodeOf(l.BlockHash)
					v := viol("added-log-twice", "LogsEvent announces log %d of block #%d %x again although it is live (no RemovedLogsEvent in between)", l.Index, l.BlockNumber, l.BlockHash[:4])
					return v
				}
				w.live[k] = true
			}
		case evChain:
			chainEvs = append(chainEvs, e.chain)
		case evHead:
			lastHead = e.head.Header
		}
	}
	// ChainEvents: reference blocks, canonical after the operation, ascending
	var prev uint64
	for i, ce := range chainEvs {
		h := ce.Header.Hash()
		node := w.tree.nodeOf(h)
		if node < 0 {
			return viol("chain-event-unknown-block", "ChainEvent names %x (#%d) which is not a non-genesis block of the reference tree", h[:4], ce.Header.Number)
		}
		ref := w.tree.nodes[node]
		n := ce.Header.Number.Uint64()
		if n > cv.hdr || cv.nodes[n] != node {
			return viol("chain-event-noncanonical", "ChainEvent names #%d %x which is not canonical after the operation", n, h[:4])
		}
		if i > 0 && n <= prev {
			return viol("chain-event-order", "ChainEvents out of order: #%d after #%d", n, prev)
		}
		prev = n
		if len(ce.Transactions) != len(ref.txs) || len(ce.Receipts) != len(ref.txs) {
			return viol("chain-event-content", "ChainEvent for #%d carries %d txs / %d receipts, block has %d", n, len(ce.Transactions), len(ce.Receipts), len(ref.txs))
		}
		for j := range ref.txs {
			if ce.Transactions[j].Hash() != ref.txs[j] || ce.Receipts[j].TxHash != ref.txs[j] {
				return viol("chain-event-content", "ChainEvent for #%d: tx/receipt %d does not belong to the block", n, j)
			}
		}
	}
	cur := w.bc.CurrentBlock()
	if lastHead != nil && lastHead.Hash() != cur.Hash() {
		return viol("head-event-stale", "last ChainHeadEvent of the operation names #%d %x, CurrentBlock is #%d %x", lastHead.Number, lastHead.Hash().Bytes()[:4], cur.Number, cur.Hash().Bytes()[:4])
	}
	if lastHead == nil && cur.Hash() != headBefore {
		return viol("head-event-missing", "CurrentBlock changed to #%d %x without a ChainHeadEvent", cur.Number, cur.Hash().Bytes()[:4])
	}
	return nil
}

func (w *world) refLog(l *types.Log) (*types.Log, string) {
	n := w.tree.byHash[l.BlockHash]
	if n == nil {
		return nil, fmt.Sprintf("log of unknown block %x", l.BlockHash[:4])
	}
	if int(l.Index) >= len(n.logs) {
		return nil, fmt.Sprintf("log index %d beyond the %d logs of block #%d", l.Index, len(n.logs), n.depth)
	}
	ref := n.logs[l.Index]
	if d := logDiff(l, ref); d != "" {
		return nil, fmt.Sprintf("log %d of block #%d: %s", l.Index, n.depth, d)
	}
	return ref, ""
}

// checkLiveLogs: the logs live according to the event stream are exactly the logs
// of the canonical chain.
func (w *world) checkLiveLogs(cv *canonView) *simcore.Violation {
	want := w.canonLogs(cv)
	var miss, extra []logKey
	for k := range want {
		if !w.live[k] {
			miss = append(miss, k)
		}
	}
	for k := range w.live {
		if !want[k] {
			extra = append(extra, k)
		}
	}
	srt := func(ks []logKey) {
		sort.Slice(ks, func(i, j int) bool {
			if c := bytes.Compare(ks[i].block[:], ks[j].block[:]); c != 0 {
				return c < 0
			}
			return ks[i].index < ks[j].index
		})
	}
	if len(miss) > 0 {
		srt(miss)
		w.missLogBlocks = nil
		seen := map[int]bool{}
		for _, k := range miss {
			if i := w.tree.nodeOf(k.block); !seen[i] {
				seen[i] = true
				w.missLogBlocks = append(w.missLogBlocks, i)
			}
		}
		n := w.tree.byHash[miss[0].block]
		return viol("logs-never-announced", "%d logs of the canonical chain were never announced by a LogsEvent (first: log %d of #%d %x)", len(miss), miss[0].index, n.depth, miss[0].block[:4])
	}
	if len(extra) > 0 {
		srt(extra)
		n := w.tree.byHash[extra[0].block]
		return viol("logs-not-removed", "%d announced logs belong to blocks that are no longer canonical and were not removed by a RemovedLogsEvent (first: log %d of #%d %x)", len(extra), extra[0].index, n.depth, extra[0].block[:4])
	}
	return nil
}

// invariants runs all policy-free checks after an operation. rebase: the
// operation (SetHead, restart) emits no log events by design, the live set is
// re-based on the canonical chain.
func (w *world) invariants(evs []chainEv, headBefore common.Hash, rebase bool) *simcore.Violation {
	cv, v := w.canon()
	if v != nil {
		return v
	}
	if v := w.checkState(); v != nil {
		return v
	}
	if v := w.applyEvents(evs, cv, headBefore); v != nil {
		return v
	}
	if rebase {
		w.live = w.canonLogs(cv)
	} else if v := w.checkLiveLogs(cv); v != nil {
		return v
	}
	if v := w.checkLookups(cv, w.bubble); v != nil {
		return v
	}
	w.headNode = cv.nodes[cv.head]
	return nil
}
