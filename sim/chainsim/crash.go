package chainsim

import (
	"bytes"
	"encoding/binary"
	"fmt"
	"os"
	"path/filepath"
	"runtime"
	"sort"
	"strconv"
	"strings"
	"sync/atomic"
	"testing"
	"time"

	"github.com/ethereum/go-ethereum/common"
	"github.com/ethereum/go-ethereum/consensus/ethash"
	"github.com/ethereum/go-ethereum/core"
	"github.com/ethereum/go-ethereum/core/rawdb"
	"github.com/ethereum/go-ethereum/core/types"
	"github.com/ethereum/go-ethereum/crypto"
	"github.com/ethereum/go-ethereum/ethdb"
	"github.com/ethereum/go-ethereum/ethdb/memorydb"
	"github.com/ethereum/go-ethereum/triedb/pathdb"

	"verifsim/simcore"
	"verifsim/simdisk"
	"verifsim/simos"
	"verifsim/simsched"
)

// history is what the uncrashed run (the twin) left behind.
type history struct {
	ops      []resolved
	kvlog    []simdisk.KVOp
	events   []simos.Event
	root     string
	endSeq   uint64
	openSeq  uint64 // clock after the fresh chain was opened
	logHash  uint64
	fileSeqs []uint64
}

func runC39(t *testing.T, pl any) *simcore.Result {
	p := pl.(*Plan)
	prologue()
	if p.OnlyCut == 0 {
		return runC39Once(t, p)
	}
	// replay of a minimised plan: the recorded cut is a hint (background goroutines
	// of the chain may shift sequence numbers between executions); fall back to
	// every cut of a few re-executions.
	res := runC39Once(t, p)
	if res.Violation != nil || os.Getenv("CHAINSIM_NO_FALLBACK") != "" {
		return res
	}
	for attempt := 0; attempt < 3; attempt++ {
		q := *p
		q.OnlyCut, q.OnlyDraw, q.MaxCuts = 0, 0, 0
		r2 := runC39Once(t, &q)
		res.Reboots += r2.Reboots
		if r2.Violation != nil {
			return r2
		}
	}
	return res
}

func runC39Once(t *testing.T, p *Plan) *simcore.Result {
	res := simcore.NewResult()
	tree := buildTree(p.Nodes)
	var hp *simcore.HarnessPanic
	dead := simsched.Bubble(t, func() {
		defer func() {
			if r := recover(); r != nil {
				if h, ok := r.(simcore.HarnessPanic); ok {
					hp = &h
					return
				}
				panic(r)
			}
		}()
		if p.Knobs.Scheme == rawdb.PathScheme && p.Knobs.MaxDiff > 0 {
			prev := pathdb.VerifChainsimSetMaxDiffLayers(p.Knobs.MaxDiff)
			defer pathdb.VerifChainsimSetMaxDiffLayers(prev)
		}
		runCrash(p, tree, res)
	})
	if hp != nil {
		panic(*hp)
	}
	if dead != "" && res.Violation == nil {
		if len(res.Known) == 0 {
			simcore.Harnessf("bubble ended with %s", dead)
		}
		// a reboot that panicked or hit log.Crit (a recorded finding) cannot be torn down:
		// its goroutines stay blocked in the dead bubble
		res.Probe("goroutines-leaked-after-known-reboot-failure")
	}
	return res
}

// runTwin executes the history on the uncrashed node and returns its record.
func runTwin(p *Plan, tree *refTree, res *simcore.Result) *history {
	var w *world
	var err error
	if v := guard("open", func() *simcore.Violation {
		w, err = newWorld(p.Knobs, tree, res, true)
		if err != nil {
			return viol("fresh-open-failed", "opening a fresh chain failed: %v", err)
		}
		return nil
	}); v != nil {
		res.Fail(v)
		if w != nil {
			w.close()
		}
		return nil
	}
	w.prevMaxDL = 0 // the knob is owned by runC39Once
	defer os.RemoveAll(w.root)
	h := &history{root: w.root}
	w.quiesce()
	h.openSeq = w.clock.Now()
	if v := guard("invariants", func() *simcore.Violation { return w.invariants(w.col.take(), w.bc.CurrentBlock().Hash(), true) }); v != nil {
		v.Msg = "uncrashed run, after opening: " + v.Msg
		res.Fail(v)
		w.close()
		return nil
	}
	cutShort := false
	var seqBefore uint64
	for i, op := range p.Ops {
		seqBefore = w.clock.Now()
		r, v := w.apply(op)
		if v != nil {
			if isKnown(v.Key) || treeFindings[v.Key] {
				// a C38 finding of the unchanged tree: C39 judges crashes of the history up to
				// (not including) this operation
				res.Probe("history-cut-short-by-C38-finding")
				cutShort = true
				break
			}
			v.Oracle = "history-" + v.Oracle
			v.Key = "history-" + v.Key
			v.Msg = fmt.Sprintf("uncrashed run, operation %d (%s): %s", i, op.Kind, v.Msg)
			res.Fail(v)
			w.close()
			return nil
		}
		h.ops = append(h.ops, r)
	}
	h.endSeq = w.clock.Now()
	if cutShort {
		h.endSeq = seqBefore
	}
	h.kvlog = w.kv.Snapshot()
	w.rec.Hook = nil
	h.events = append([]simos.Event{}, w.rec.Events[:w.rec.Len()]...)
	// the recorded file model must equal the real files, otherwise the tree under test
	// mutated a file through a call the rewrite table does not cover
	full := simdisk.Replay(w.root, h.events, len(h.events))
	if err := full.VerifyAgainstDisk(func(p string) bool { return filepath.Base(p) == "FLOCK" }); err != nil {
		simcore.Harnessf("simos model diverged from the real files (unmapped file-system call?): %v", err)
	}
	// stop the twin (not recorded: cuts end at endSeq)
	simos.Install(nil)
	if v := guard("Stop", func() *simcore.Violation { w.stopChain(); return nil }); v != nil {
		v.Msg = "uncrashed run, final Stop: " + v.Msg
		res.Fail(v)
	}
	w.engine.Close()
	// Event-log hash. The freezer walks its table map in Go's random order (SyncAncient,
	// TruncateHead, commit), so the interleaving of different files inside one burst of
	// file events is not decided by the seed: a burst (file events with no key-value unit
	// in between) is hashed as per-file sequences in path order.
	hh := simcore.NewHash().U64(uint64(w.trace))
	ki, fi := 0, 0
	var dump *os.File
	if fn := os.Getenv("CHAINSIM_DUMPLOG"); fn != "" {
		dump, _ = os.Create(fn)
		defer dump.Close()
		fmt.Fprintf(dump, "trace %x\n", uint64(w.trace))
	}
	var burst []*simos.Event
	flush := func() {
		sort.SliceStable(burst, func(i, j int) bool { return burst[i].Path < burst[j].Path })
		for _, e := range burst {
			hh = hh.U64(uint64(e.Kind)).String(e.Path[len(w.root):]).U64(uint64(e.Off)).U64(uint64(len(e.Data)))
			if dump != nil {
				fmt.Fprintf(dump, "file %s %s %d %d\n", e.Kind, e.Path[len(w.root):], e.Off, len(e.Data))
			}
		}
		burst = burst[:0]
	}
	for ki < len(h.kvlog) || fi < len(h.events) {
		if fi >= len(h.events) || (ki < len(h.kvlog) && h.kvlog[ki].Seq < h.events[fi].Seq) {
			flush()
			op := &h.kvlog[ki]
			if op.Seq <= h.endSeq {
				hh = hh.U64(uint64(op.Kind)).Bytes(op.Key).U64(uint64(len(op.Batch)))
				// trie nodes reach a batch in map order: a batch is hashed as a key-sorted list
				idx := make([]int, len(op.Batch))
				for j := range idx {
					idx[j] = j
				}
				sort.SliceStable(idx, func(a, b int) bool { return bytes.Compare(op.Batch[idx[a]].Key, op.Batch[idx[b]].Key) < 0 })
				for _, j := range idx {
					hh = hh.U64(uint64(op.Batch[j].Kind)).Bytes(op.Batch[j].Key).U64(uint64(len(op.Batch[j].Val)))
					if dump != nil {
						fmt.Fprintf(dump, "  sub %d %x %d\n", op.Batch[j].Kind, op.Batch[j].Key, len(op.Batch[j].Val))
					}
				}
				if dump != nil {
					fmt.Fprintf(dump, "kv %d %x %d\n", op.Kind, op.Key, len(op.Batch))
				}
			}
			ki++
		} else {
			e := &h.events[fi]
			if e.Seq <= h.endSeq {
				burst = append(burst, e)
				h.fileSeqs = append(h.fileSeqs, e.Seq)
			}
			fi++
		}
	}
	flush()
	h.logHash = uint64(hh)
	return h
}

// opAt returns the index of the operation during which sequence number c was
// issued (-1: while the fresh chain was opened; len(ops): never).
func (h *history) opAt(c uint64) int {
	if c <= h.openSeq {
		return -1
	}
	for i, r := range h.ops {
		if c <= r.endSeq {
			return i
		}
	}
	return len(h.ops) - 1
}

// knobsAt: the configuration the node is restarted with after a crash at c = the one of the
// session that was running (a crash inside a reopen that changes it: the new one).
func (h *history) knobsAt(k Knobs, c uint64) Knobs {
	if i := h.opAt(c); i >= 0 {
		if h.ops[i].kind != "reopen" && c == h.ops[i].startSeq && i > 0 {
			i--
		}
		k.Snapshots = h.ops[i].snaps
	}
	return k
}

// target is the block the rebooted node is asked to reach again: the twin's head
// after the interrupted operation if that operation imports or selects blocks,
// otherwise the twin's head before it.
func (h *history) target(c uint64) (node int, op int) {
	k := h.opAt(c)
	if k < 0 {
		return -1, k
	}
	before := -1
	if k > 0 {
		before = h.ops[k-1].headAfter
	}
	if c == h.ops[k].startSeq {
		return before, k
	}
	switch h.ops[k].kind {
	case "insert", "setcanon":
		if !h.ops[k].skipped {
			return h.ops[k].headAfter, k
		}
	}
	return before, k
}

func runCrash(p *Plan, tree *refTree, res *simcore.Result) {
	tracef("run %+v nodes=%d ops=%d", p.Knobs, len(p.Nodes), len(p.Ops))
	h := runTwin(p, tree, res)
	if h == nil || res.Violation != nil {
		return
	}
	res.Events = int(h.endSeq)
	res.LogHash = h.logHash
	// ---- choose the cuts
	var cuts []uint64
	cr := simcore.NewRand(p.CutSeed)
	switch {
	case p.OnlyCut > 0 && p.OnlyCut-1 <= h.endSeq && os.Getenv("VERIF_REPLAY_FULL") == "":
		cuts = []uint64{p.OnlyCut - 1}
	case p.MaxCuts > 0 && uint64(p.MaxCuts) < h.endSeq+1:
		pick := map[uint64]bool{}
		var rewinds []resolved
		for _, o := range h.ops {
			if (o.kind == "sethead" || o.kind == "setcanon") && !o.skipped && o.endSeq > o.startSeq {
				rewinds = append(rewinds, o)
			}
		}
		for tries := 0; len(pick) < p.MaxCuts && tries < 10*p.MaxCuts; tries++ {
			var c uint64
			switch {
			case len(h.fileSeqs) > 0 && cr.Bool(0.4):
				// around file events (freezer, journal): rarer than key-value units
				c = h.fileSeqs[cr.Intn(len(h.fileSeqs))]
				if cr.Bool(0.3) && c > 0 {
					c--
				}
			case len(rewinds) > 0 && cr.Bool(0.25):
				// inside a SetHead / SetCanonical: markers move first, data and state follow
				o := rewinds[cr.Intn(len(rewinds))]
				c = o.startSeq + uint64(cr.Intn(int(o.endSeq-o.startSeq)+1))
			case cr.Bool(0.25) && len(h.ops) > 0:
				// exactly between two operations
				c = h.ops[cr.Intn(len(h.ops))].endSeq
			default:
				c = uint64(cr.Intn(int(h.endSeq) + 1))
			}
			pick[c] = true
		}
		for c := range pick {
			cuts = append(cuts, c)
		}
	default:
		for c := uint64(0); c <= h.endSeq; c++ {
			cuts = append(cuts, c)
		}
	}
	sort.Slice(cuts, func(i, j int) bool { return cuts[i] < cuts[j] })
	hint := len(cuts) == 1 && p.OnlyCut > 0

	engine := ethash.NewFaker()
	defer engine.Close()
	model := simdisk.NewFSModel(h.root)
	applied := 0
	stats := map[string]int{}
	fp := simcore.NewHash()
	for ci, c := range cuts {
		if !hint && overBudget() {
			// the batch's wall-clock budget is used up: stop exploring this run's cuts (coverage
			// only; verdicts and replays do not depend on it)
			res.Probe("cuts-dropped-batch-budget-exhausted")
			cuts = cuts[:ci]
			break
		}
		for applied < len(h.events) && h.events[applied].Seq <= c {
			model.Apply(&h.events[applied])
			applied++
		}
		for d := 0; d <= p.Draws; d++ {
			if hint && d != p.OnlyDraw {
				continue
			}
			dr := simcore.NewRand(simcore.RunSeed(p.CutSeed, c*16+uint64(d)))
			mode := simdisk.ProcessCrash
			lose := 0
			if d > 0 {
				mode = simdisk.PowerLoss
				if uns := simdisk.UnsyncedUnits(h.kvlog, c); uns > 0 && p.KVLoss {
					switch dr.Intn(4) {
					case 0:
						lose = uns
					case 1:
						lose = 0
					default:
						lose = dr.Intn(min(uns, 16) + 1)
					}
				}
			}
			mem, lost := simdisk.MaterialiseKV(h.kvlog, c, lose)
			if lost > 0 {
				stats["kv-units-lost"] += lost
				stats["kv-power-loss"]++
			}
			img := model.CrashImage(mode, dr, stats)
			res.Reboots++
			rb := &rebooter{p: p, kn: h.knobsAt(p.Knobs, c), tree: tree, h: h, res: res, engine: engine, cut: c, draw: d, lost: lost}
			// recorded restarts (second crashes): half of the sampled images in quick, one in six
			// when every cut is taken (a thorough run has 10^3 images; 4+ more reboots for each
			// would make single runs last longer than the batch)
			nestP := 0.5
			if p.MaxCuts == 0 {
				nestP = 0.17
			}
			if p.Nested > 0 && (dr.Bool(nestP) || hint) {
				rb.nest = &nestRec{}
			}
			v := rb.run(model, img, mem)
			fp = fp.U64(c).U64(uint64(d)).U64(rb.headNum)
			second := false
			if v == nil && rb.nest != nil {
				v = rb.secondCrash(model, img, dr, stats, &fp)
				second = v != nil
			}
			if v != nil && d > 0 && !second {
				if mp := tornMeta(model, img); mp != "" {
					// the power-loss image holds a freezer table .meta file that is neither of the
					// contents whole writes can leave (torn / zero-filled extension of the rewrite):
					// the recorded C24 cause, whatever it leads to (undecodable metadata, or metadata
					// that decodes to a garbage flushOffset / virtual tail)
					res.Probe("torn-meta-image-violation")
					v.Msg = fmt.Sprintf("torn freezer metadata file %s in the image; symptom [%s / %s]: %s", mp[len(h.root):], v.Oracle, v.Key, v.Msg)
					v.Key = "reboot-failed:power-loss:torn-freezer-metadata"
				}
			}
			if v != nil {
				if traceOn {
					dumpAround(h, c)
				}
				modeS := "process crash"
				if d > 0 {
					modeS = fmt.Sprintf("power loss (%d unsynced key-value units dropped)", lost)
				}
				k, _ := h.target(c)
				opk := h.opAt(c)
				opS := "while opening the fresh chain"
				if opk >= 0 {
					opS = fmt.Sprintf("operation %d: %s", opk, h.ops[opk].desc)
				}
				v.Msg = fmt.Sprintf("cut at seq %d of %d, %s, %s; target node %d\n%s", c, h.endSeq, modeS, opS, k, v.Msg)
				if isKnown(v.Key) {
					res.KnownHit(v.Key)
					continue
				}
				if p.OnlyCut == 0 {
					p.OnlyCut, p.OnlyDraw = c+1, d
				}
				for k, n := range stats {
					res.Faults[k] += n
				}
				res.Fail(v)
				return
			}
		}
	}
	for k, n := range stats {
		res.Faults[k] += n
	}
	res.Faults["crash-cut"] += len(cuts)
	res.NonTrivial = res.Reboots > 2
	res.StateFP = uint64(fp.U64(h.endSeq))
	res.LogHash = h.logHash // the twin's event log; reboot outcomes are in StateFP (cuts fall on the actual, not the canonicalised, order)
}

// budgetGone is set by a real timer (created at package initialisation, outside any synctest
// bubble, whose clock is virtual) once the worker process has been running for 1.25x the
// batch budget; the driver kills workers at 1.6x + 180 s, which would turn one long run into
// a harness error.
var budgetGone atomic.Bool

func init() {
	if n, _ := strconv.Atoi(os.Getenv("VERIF_BUDGET_S")); n > 0 {
		time.AfterFunc(time.Duration(n)*time.Second*5/4, func() { budgetGone.Store(true) })
	}
}

func overBudget() bool { return budgetGone.Load() }

type rebooter struct {
	p       *Plan
	tree    *refTree
	h       *history
	res     *simcore.Result
	engine  *ethash.Ethash
	cut     uint64
	draw    int
	lost    int
	headNum uint64
	// read from the image before the chain touches it
	imgFrozen, imgHeader, imgFinal uint64
	imgBlock, imgSnap              uint64 // numbers of the image's head block / head snap block markers
	// nested crashes: a level-0 reboot with nest set records its own writes (key-value
	// units and file events) so that a second crash can be cut into the restart; a level-1
	// reboot runs on such an image (log2/cut2 = the first restart's units up to the cut)
	kn    Knobs // configuration in force at the cut (a reopen may have changed it)
	level int
	nest  *nestRec
	log2  []simdisk.KVOp
	cut2  uint64
}

// nestRec is what a recorded restart leaves behind for the second-crash images.
type nestRec struct {
	base    *memorydb.Database // key-value image the restart started from
	root    string             // scratch root the restart ran on (removed by now)
	rec     *simos.Recorder
	log     []simdisk.KVOp
	openSeq uint64 // last sequence number of the start-up (NewBlockChain + quiescence)
	endSeq  uint64
}

func (rb *rebooter) modeKey() string {
	if rb.draw > 0 {
		return "power-loss"
	}
	return "process-crash"
}

// run materialises one crash state below a fresh root, reboots the chain on it
// and judges.
func (rb *rebooter) run(model *simdisk.FSModel, img map[string][]byte, mem *memorydb.Database) (v *simcore.Violation) {
	nroot, err := os.MkdirTemp(scratchDir(), "boot-")
	if err != nil {
		simcore.Harnessf("mkdtemp: %v", err)
	}
	defer os.RemoveAll(nroot)
	if err := model.WriteImage(img, nroot); err != nil {
		simcore.Harnessf("write image: %v", err)
	}
	simos.ResetLocks()
	if rb.nest != nil {
		rb.nest.base = simdisk.CopyMem(mem)
	}
	kv := simdisk.FromMem(mem, nil)
	if rb.kn.ValueScale > 1 {
		kv.ValueSizeScale = rb.kn.ValueScale
	}
	if rb.nest != nil {
		rb.nest.root = nroot
		rb.nest.rec = simos.NewRecorder(nroot)
		rb.nest.rec.NextSeq = kv.Clock.Next
		simos.Install(rb.nest.rec)
		defer func() {
			// runs after the chain was stopped (deferred below): the restart's record is complete
			simos.Install(nil)
			rb.nest.log = kv.Snapshot()
			rb.nest.endSeq = kv.Clock.Now()
			if v == nil {
				full := simdisk.ModelFromImage(model, img, nroot)
				for i := range rb.nest.rec.Events {
					full.Apply(&rb.nest.rec.Events[i])
				}
				if err := full.VerifyAgainstDisk(func(p string) bool { return filepath.Base(p) == "FLOCK" }); err != nil {
					simcore.Harnessf("simos model of the restart diverged from the real files: %v", err)
				}
			}
		}()
	}
	w := &world{knobs: rb.kn, tree: rb.tree, root: nroot, clock: kv.Clock, kv: kv, engine: rb.engine, res: rb.res, bubble: true,
		live: map[logKey]bool{}, universe: rb.tree.universe(), trace: simcore.NewHash(), stateFP: simcore.NewHash(), headNode: -1, finalNode: -2, dupLogBlock: -2, crashed: true, unexecuted: map[int]bool{}, badBlock: -2}
	defer func() {
		// best-effort tear-down; a wedged chain after a violation must not hide it
		func() {
			defer func() { recover() }()
			w.stopChain()
		}()
	}()
	var (
		bound    int64 = -1
		boundWhy string
	)
	if v, hung := withDeadline("reboot", func() *simcore.Violation {
		db, err := rawdb.Open(kv, rawdb.OpenOptions{Ancient: filepath.Join(nroot, "ancient")})
		if err != nil {
			v := viol("reboot-open-failed", "rawdb.Open on the crash image failed: %v", err)
			v.Key = "reboot-open-failed:" + rb.modeKey() + ":" + classOf(err.Error())
			if (strings.Contains(err.Error(), "already extracted") || strings.Contains(err.Error(), "gap in the chain between ancients")) &&
				rb.lastUnitIsReorgDeletion(headNumber(kv)) {
				// same window as reboot-canon-gap:reorg-deletes-old-index-before-moving-head, with the
				// fork point at genesis or at the last frozen block: the canonical hash right above
				// the freezer is gone while the head markers still name the old head, and rawdb.Open
				// takes that for a key-value store that does not belong to the freezer
				v.Key = "reboot-open-failed:reorg-deletes-old-index-before-moving-head"
			}
			return v
		}
		w.db = db
		// what the image durably holds, read before the chain touches it
		bound, boundWhy = rb.noLossBound(db)
		rb.probeRewindWindow(db)
		rb.imgFrozen, _ = db.Ancients()
		rb.imgHeader = headNumber(db)
		rb.imgBlock, _ = rawdb.ReadHeaderNumber(db, rawdb.ReadHeadBlockHash(db))
		rb.imgSnap, _ = rawdb.ReadHeaderNumber(db, rawdb.ReadHeadFastBlockHash(db))
		if fh := rawdb.ReadFinalizedBlockHash(db); fh != (common.Hash{}) {
			rb.imgFinal, _ = rawdb.ReadHeaderNumber(db, fh)
		}
		bc, err := core.NewBlockChain(db, rb.tree.gspec, rb.engine, rb.kn.configWait(nroot, false))
		if err != nil {
			v := viol("reboot-chain-failed", "NewBlockChain on the crash image failed: %v", err)
			v.Key = "reboot-chain-failed:" + rb.modeKey() + ":" + classOf(err.Error())
			if strings.Contains(err.Error(), "is disk layer") && rawdb.ReadCanonicalHash(db, 0) == (common.Hash{}) {
				// the genesis state reached the disk, the genesis block did not: SetupGenesisBlock
				// commits the genesis again and pathdb refuses to commit its own disk layer
				v.Key = "reboot-chain-failed:genesis-state-on-disk-but-genesis-block-missing"
			}
			return v
		}
		w.bc = bc
		w.col = newCollector(bc)
		return nil
	}); v != nil {
		if hung {
			// the goroutine inside NewBlockChain is blocked for good; stop what can be stopped
			// (the chain freezer's timer would otherwise keep the bubble alive forever)
			func() {
				defer func() { recover() }()
				if w.db != nil {
					w.db.Close()
				}
			}()
			w.db, w.bc = nil, nil
		}
		if v.Oracle == "panic" || v.Oracle == "log-crit" {
			v.Key = "reboot-" + v.Key
			v.Oracle = "reboot-" + v.Oracle
		}
		// freezer-level causes that are already recorded under C24 get one key each,
		// wherever they surface (rawdb.Open error, pathdb log.Crit, panic in Freezer.repair)
		switch {
		case v.Oracle == "reboot-panic" && strings.Contains(v.Msg, "nil pointer dereference") && strings.Contains(v.Msg, "ResetWithGenesisBlock") && strings.Contains(v.Msg, "setHeadBeyondRoot.func1"):
			// loadLastState finds the head block missing and calls Reset -> SetHead(0); the
			// rewind callback dereferences bc.CurrentBlock(), which is still nil at that point
			v.Key = "reboot-panic:reset-on-missing-head-block-dereferences-nil-current-block"
		case v.Oracle == "reboot-log-crit" && strings.Contains(v.Msg, "Failed to repair history") && strings.Contains(v.Msg, "gap between state") && rb.restartedBefore():
			// pathdb refuses to open: the loaded disk layer id is ahead of the state history
			// freezer (seen when a journal of an earlier session is still in the database and
			// matches the disk root again after a rollback)
			v.Key = "reboot-log-crit:pathdb-gap-between-state-and-state-history"
		case strings.Contains(v.Msg, "failed to decode metadata"):
			v.Key = "reboot-failed:" + rb.modeKey() + ":torn-freezer-metadata"
		case strings.Contains(v.Msg, "non-prunable freezer table"):
			v.Key = "reboot-failed:" + rb.modeKey() + ":non-prunable-table-nonzero-tail"
		}
		return v
	}
	w.quiesce()
	w.col.take()
	if rb.nest != nil {
		rb.nest.openSeq = kv.Clock.Now()
	}
	rb.headNum = w.bc.CurrentBlock().Number.Uint64()
	return guard("reboot-oracle", func() *simcore.Violation { return rb.judge(w, bound, boundWhy) })
}

func (rb *rebooter) judge(w *world, bound int64, boundWhy string) *simcore.Violation {
	bc := w.bc
	pre := func(v *simcore.Violation) *simcore.Violation {
		v.Oracle = "reboot-" + v.Oracle
		v.Key = "reboot-" + v.Key
		v.Msg = "after reboot: " + v.Msg
		return v
	}
	// 1-4: structure and head state
	opk := rb.h.opAt(rb.cut)
	cv, v := w.canon()
	if v != nil {
		v = pre(v)
		if v.Oracle == "reboot-canon-gap" && w.gapAt == bc.CurrentHeader().Number.Uint64() && rb.lastUnitIsReorgDeletion(bc.CurrentHeader().Number.Uint64()) {
			// the last key-value unit before the crash is reorg()'s batch that deletes the old
			// canonical hashes above the fork point (incl. the one of the block the head markers
			// still name); the head markers move in a later unit (writeHeadBlock). Reached by a
			// side block / equal-height competitor / SetCanonical(ancestor) on the canonical chain
			// and by InsertChain re-executing pruned canonical ancestors ("Shorten chain")
			v.Key = "reboot-canon-gap:reorg-deletes-old-index-before-moving-head"
		}
		if tail, _ := w.db.Tail(rawdb.ChainFreezerBlockDataGroup); tail > 0 && strings.HasPrefix(v.Oracle, "reboot-canon-") {
			// chain freezer tables that were not yet covered by the interrupted SyncAncient lose
			// their items at repair and are then taken for pruned history (tail moved to the head)
			v.Key = "reboot-canon-block-missing:partially-synced-freezer-tables-taken-for-pruned-history"
			v.Msg += fmt.Sprintf(" (freezer block-data tail is %d although history pruning is off)", tail)
		}
		return v
	}
	if v := w.checkState(); v != nil {
		v = pre(v)
		if v.Oracle == "reboot-head-state-missing" && cv.head == 0 && opk >= 0 && opk < len(rb.h.ops) && rb.h.ops[opk].kind == "sethead" && bc.StateRecoverable(head0Root(rb.tree)) {
			// setHeadBeyondRoot moves the head markers first and recovers the (recoverable)
			// state in one shot at the end; after a crash in between NewBlockChain repairs any
			// head but genesis ("Genesis state is missing, wait state sync")
			v.Key = "reboot-head-state-missing:sethead-to-genesis-interrupted-before-state-recovery"
		}
		if v.Oracle == "reboot-head-state-missing" && cv.head == 0 && opk < 0 && rb.kn.Scheme == rawdb.PathScheme && !rb.kn.NoAsync {
			// Genesis.Commit writes the genesis block batch while the asynchronous flush of
			// the genesis state is still in flight
			v.Key = "reboot-head-state-missing:genesis-block-written-before-async-state-flush"
		}
		return v
	}
	head := bc.CurrentBlock()
	tracef("   reboot cut=%d draw=%d: head #%d header #%d bound %d (%s)", rb.cut, rb.draw, cv.head, cv.hdr, bound, boundWhy)
	// 5: no loss below the newest durable state
	if bound >= 0 {
		rb.res.Probe("no-loss-bound-evaluated")
		if int64(cv.head) < bound {
			return viol("reboot-lost-below-durable-state", "CurrentBlock is #%d after reboot although the image durably holds the state of canonical block #%d (%s)", cv.head, bound, boundWhy)
		}
		if int64(cv.head) > bound {
			rb.res.Probe("head-above-durable-state")
		}
	}
	if cv.head == 0 {
		rb.res.Probe("rebooted-at-genesis")
	} else {
		rb.res.Probe("rebooted-above-genesis")
	}
	// 6: freezer / key-value boundary
	frozen, err := w.db.Ancients()
	if err != nil {
		return viol("reboot-ancients", "Ancients(): %v", err)
	}
	if frozen > 0 {
		rb.res.Probe("rebooted-with-frozen-blocks")
		if frozen > cv.hdr+1 {
			v := viol("reboot-freezer-beyond-head", "freezer holds %d blocks but the header head is #%d after reboot", frozen, cv.hdr)
			if rb.imgFrozen <= rb.imgHeader+1 && rb.imgFinal > rb.imgHeader {
				// the image itself was fine (freezer not beyond the head header marker) but its
				// finalized marker is above the head (SetHead clears it only at the very end): the
				// chain freezer started by rawdb.Open takes it as threshold and freezes the leftover
				// canonical blocks above the head while NewBlockChain is starting; whether
				// NewBlockChain's "Truncating ancient chain" step sees them is a race
				v.Key = "reboot-freezer-beyond-head:finalized-marker-above-head-after-interrupted-sethead"
				v.Msg += fmt.Sprintf(" (image: %d frozen, head header #%d, finalized #%d)", rb.imgFrozen, rb.imgHeader, rb.imgFinal)
			} else if rb.level > 0 && cv.head == 0 && rb.imgBlock == 0 && rb.imgFrozen > rb.imgHeader+1 && rb.imgSnap >= rb.imgFrozen-1 {
				// second crash inside the first restart's repair: setHeadBeyondRoot(repair) had moved
				// the block head to genesis (below the freezer, "force") and hc.SetHead was lowering
				// the header head step by step, the freezer not yet truncated, the snap block marker
				// untouched. NewBlockChain's "Truncating ancient chain" step skips a genesis block
				// head and a snap block at or above the freezer, so nothing truncates the freezer
				v.Key = "reboot-freezer-beyond-head:second-crash-inside-repair-rewind-block-head-at-genesis"
				v.Msg += fmt.Sprintf(" (image: %d frozen, head header #%d, head block #%d, snap block #%d)", rb.imgFrozen, rb.imgHeader, rb.imgBlock, rb.imgSnap)
			}
			return v
		}
	}
	// 7: reach the twin's head again
	tnode, _ := rb.h.target(rb.cut)
	tblock := rb.tree.blockOf(tnode)
	if !w.finalOK(tnode) {
		// the image's frozen / finalized blocks are not ancestors of the target (can
		// only happen when the history itself went below finality with SetHead)
		rb.res.Probe("reimport-skipped-target-below-finality")
		return nil
	}
	// like a syncing node: import what follows the common ancestor of the rebooted
	// head and the target
	path := rb.tree.path(tnode)
	hnode := rb.tree.nodeOf(head.Hash())
	for len(path) > 0 && rb.tree.isAncestorOrSelf(path[0].idx, hnode) {
		path = path[1:]
	}
	// blocks that are stored without receipts (insertSideChain) and whose state the rebooted
	// node nevertheless reports as available: classification of a recorded finding
	ghost := map[int]bool{}
	for _, n := range rb.tree.path(tnode) {
		if w.known(n) && !rawdb.HasReceipts(w.db, n.block.Hash(), n.depth) && bc.HasState(n.block.Root()) {
			ghost[n.idx] = true
		}
	}
	if len(path) > 0 {
		n, err := bc.InsertChain(rb.tree.blocks(path))
		if err != nil {
			return viol("reimport-failed", "re-importing the %d canonical blocks up to the twin's head #%d (operation %d) failed at %d: %v (rebooted head #%d)", len(path), tblock.NumberU64(), opk, n, err, head.Number)
		}
	}
	if bc.CurrentBlock().Hash() != tblock.Hash() {
		rb.res.Probe("reimport-needed-setcanonical")
		if _, err := bc.SetCanonical(tblock); err != nil {
			return viol("reimport-failed", "SetCanonical(twin head #%d) after re-import failed: %v", tblock.NumberU64(), err)
		}
	}
	w.quiesce()
	w.col.take()
	if cur := bc.CurrentBlock(); cur.Hash() != tblock.Hash() {
		return viol("reimport-head-differs", "after re-import CurrentBlock is #%d %x, the twin that never crashed has #%d %x", cur.Number, cur.Hash().Bytes()[:4], tblock.NumberU64(), tblock.Hash().Bytes()[:4])
	}
	headerWasAhead := cv.hdr > cv.head
	cv, v = w.canon()
	if v != nil {
		v = pre(v)
		v.Msg = "after re-import: " + v.Msg
		if v.Oracle == "reboot-canon-receipts-missing" && ghost[w.badBlock] {
			// a block stored without execution (insertSideChain) passed for "known with state"
			// (stale state root on disk / stale pathdb journal) and became canonical
			v.Key = "reboot-canon-receipts-missing:unexecuted-sidechain-block-canonicalised"
		}
		if v.Oracle == "reboot-canon-above-head" && headerWasAhead {
			// C38 finding in its most common setting: the repair left the header head above
			// the block head, the import of another fork moves it down and leaves the index above
			v.Key = "reboot-canon-above-head:header-head-was-ahead-of-block-head"
		}
		return v
	}
	if v := w.checkState(); v != nil {
		v = pre(v)
		v.Msg = "after re-import: " + v.Msg
		return v
	}
	_ = cv
	// clean shutdown of the repaired node
	w.stopChain()
	return nil
}

// noLossBound inspects the image: the number of the newest block, on the chain
// ending at the image's head marker, whose state the image durably holds (-1:
// nothing can be said).
func (rb *rebooter) noLossBound(db ethdb.Database) (int64, string) {
	marker := rawdb.ReadHeadBlockHash(db)
	m := rb.tree.nodeOf(marker)
	if m == -2 {
		return -1, "no head marker"
	}
	persisted := func(root common.Hash) bool { return rawdb.HasLegacyTrieNode(db, root) }
	if rb.kn.Scheme == rawdb.PathScheme {
		blob := rawdb.ReadAccountTrieNode(db, nil)
		disk := types.EmptyRootHash
		if len(blob) > 0 {
			disk = crypto.Keccak256Hash(blob)
		}
		persisted = func(root common.Hash) bool { return root == disk }
	}
	// the marker block itself must be complete on the image (header, body), else the
	// chain legitimately resets
	for i := m; i >= 0; i = rb.tree.nodes[i].parent {
		n := rb.tree.nodes[i]
		if !rawdb.HasHeader(db, n.block.Hash(), n.depth) || !rawdb.HasBody(db, n.block.Hash(), n.depth) {
			return -1, "block data of the marker's chain is incomplete on the image"
		}
	}
	limit := int64(1 << 62)
	if rb.kn.Scheme == rawdb.HashScheme && rb.kn.Snapshots && !persisted(rb.tree.blockOf(m).Root()) {
		// the rewind has to pass the snapshot's disk layer root
		if sr := rawdb.ReadSnapshotRoot(db); sr != (common.Hash{}) {
			limit = -1
			for i := m; ; i = rb.tree.nodes[i].parent {
				if rb.tree.blockOf(i).Root() == sr {
					limit = int64(rb.tree.blockOf(i).NumberU64())
					break
				}
				if i < 0 {
					break
				}
			}
			if limit < 0 {
				return -1, "snapshot root is not on the marker's chain"
			}
		}
	}
	for i := m; ; i = rb.tree.nodes[i].parent {
		b := rb.tree.blockOf(i)
		if int64(b.NumberU64()) <= limit && persisted(b.Root()) {
			return int64(b.NumberU64()), fmt.Sprintf("marker #%d, state of #%d on disk", rb.tree.blockOf(m).NumberU64(), b.NumberU64())
		}
		if i < 0 {
			break
		}
	}
	return -1, "no state of the marker's chain on the image"
}

// dumpAround prints the recorded units / events near a cut (debugging aid).
func dumpAround(h *history, c uint64) {
	lo := uint64(0)
	if c > 8 {
		lo = c - 8
	}
	for i := range h.kvlog {
		op := &h.kvlog[i]
		if op.Seq < lo || op.Seq > c+3 {
			continue
		}
		mark := " "
		if op.Seq > c {
			mark = ">"
		}
		fmt.Printf("   %s kv  seq %d kind %d key %x (%d sub-ops)\n", mark, op.Seq, op.Kind, trunc(op.Key), len(op.Batch))
		for j := range op.Batch {
			if j < 14 {
				fmt.Printf("        %d %x = %d bytes\n", op.Batch[j].Kind, trunc(op.Batch[j].Key), len(op.Batch[j].Val))
			}
		}
	}
	for i := range h.events {
		e := &h.events[i]
		if e.Seq < lo || e.Seq > c+3 {
			continue
		}
		fmt.Printf("     file seq %d %s %s off=%d len=%d\n", e.Seq, e.Kind, e.Path[len(h.root):], e.Off, len(e.Data))
	}
}

func trunc(b []byte) []byte {
	if len(b) > 12 {
		return b[:12]
	}
	return b
}

func head0Root(t *refTree) common.Hash { return t.genesis.Root() }

func (rb *rebooter) headBefore(k int) int {
	if k > 0 {
		return rb.h.ops[k-1].headAfter
	}
	return -1
}

// withDeadline runs f on its own goroutine and gives up after a day of virtual
// time. Inside the bubble the clock only moves when every goroutine is durably
// blocked, so the deadline fires exactly when f can never return.
func withDeadline(what string, f func() *simcore.Violation) (v *simcore.Violation, hung bool) {
	done := make(chan *simcore.Violation, 1)
	go func() { done <- guard(what, f) }()
	select {
	case v := <-done:
		return v, false
	case <-time.After(24 * time.Hour):
		buf := make([]byte, 1<<20)
		st := string(buf[:runtime.Stack(buf, true)])
		v := viol("reboot-hang", "%s never returns: every goroutine is blocked\n%s", what, hangStack(st))
		if strings.Contains(st, "ClosableMutex).TryLock") && strings.Contains(st, "ResetWithGenesisBlock") && strings.Count(st, "setHeadBeyondRoot(") >= 2 {
			// NewBlockChain -> setHeadBeyondRoot (holds chainmu) -> loadLastState -> "Head block
			// missing, resetting chain" -> Reset -> SetHead -> setHeadBeyondRoot -> chainmu again
			v.Key = "reboot-hang:reset-inside-repair-locks-chainmu-twice"
		}
		return v, true
	}
}

// hangStack keeps the geth frames of the goroutine that is stuck in the tree under test.
func hangStack(st string) string {
	for _, g := range strings.Split(st, "\n\n") {
		if strings.Contains(g, "chainsim.withDeadline.func1") {
			var keep []string
			for _, l := range strings.Split(g, "\n") {
				if strings.Contains(l, "go-ethereum") && !strings.HasPrefix(l, "\t") {
					if i := strings.LastIndex(l, "("); i > 0 {
						l = l[:i]
					}
					keep = append(keep, l)
				}
			}
			return strings.Join(keep, "\n")
		}
	}
	return "(stack of the blocked goroutine not found)"
}

// restartedBefore: the history has a clean Stop + reopen before the interrupted operation
// (a pathdb journal of an earlier session is in the database).
func (rb *rebooter) restartedBefore() bool {
	k := rb.h.opAt(rb.cut)
	for i := 0; i < k && i < len(rb.h.ops); i++ {
		if rb.h.ops[i].kind == "reopen" {
			return true
		}
	}
	return false
}

// probeRewindWindow counts the images that sit in the window "head markers already
// lowered, persistent state not yet rolled back" (path scheme: the marker block's state
// is only recoverable from the state history).
func (rb *rebooter) probeRewindWindow(db ethdb.Database) {
	if rb.kn.Scheme != rawdb.PathScheme {
		return
	}
	m := rb.tree.nodeOf(rawdb.ReadHeadBlockHash(db))
	if m == -2 {
		return
	}
	blob := rawdb.ReadAccountTrieNode(db, nil)
	if len(blob) == 0 {
		return
	}
	disk := crypto.Keccak256Hash(blob)
	for i := range rb.tree.nodes {
		n := rb.tree.nodes[i]
		if n.block.Root() == disk && rb.tree.isAncestorOrSelf(m, i) && i != m {
			// the disk layer is at a descendant of the marker block
			rb.res.Probe("image-head-marker-below-disk-layer")
			if m == -1 {
				rb.res.Probe("image-head-marker-genesis-below-disk-layer")
			}
			return
		}
	}
}

// headNumber is the number of the block the image's head header marker names.
func headNumber(db ethdb.KeyValueReader) uint64 {
	n, _ := rawdb.ReadHeaderNumber(db, rawdb.ReadHeadHeaderHash(db))
	return n
}

// lastUnitIsReorgDeletion: the last key-value unit in the image is a batch that only
// deletes canonical number->hash entries ('h' num 'n') and tx lookups ('l' hash), among
// them the canonical hash of block number head.
func (rb *rebooter) lastUnitIsReorgDeletion(head uint64) bool {
	log := rb.h.kvlog
	n := sort.Search(len(log), func(i int) bool { return log[i].Seq > rb.cut })
	n -= rb.lost
	if rb.level > 0 {
		// second crash: the last mutation unit of the first restart before the cut, if any
		for i := len(rb.log2) - 1; i >= 0; i-- {
			if rb.log2[i].Seq <= rb.cut2 && rb.log2[i].Kind != simdisk.OpSync {
				log, n = rb.log2, i+1
				break
			}
		}
	}
	if n <= 0 {
		return false
	}
	op := &log[n-1]
	if op.Kind != simdisk.OpBatch || len(op.Batch) == 0 {
		return false
	}
	hit := false
	for i := range op.Batch {
		sub := &op.Batch[i]
		if sub.Kind != simdisk.OpDelete {
			return false
		}
		k := sub.Key
		switch {
		case len(k) == 10 && k[0] == 'h' && k[9] == 'n':
			if binary.BigEndian.Uint64(k[1:9]) == head {
				hit = true
			}
		case len(k) == 33 && k[0] == 'l':
		default:
			return false
		}
	}
	return hit
}

// tornMeta returns the path of a freezer table metadata file (chain freezer or state
// freezers) whose content in the image is none of the contents the file can have when each
// unsynced mutation is applied completely or not at all ("" if there is none).
func tornMeta(model *simdisk.FSModel, img map[string][]byte) string {
	paths := make([]string, 0, len(img))
	for p := range img {
		if strings.HasSuffix(p, ".meta") {
			paths = append(paths, p)
		}
	}
	sort.Strings(paths)
	for _, p := range paths {
		whole := false
		for _, st := range model.WholeWriteStates(p) {
			if bytes.Equal(st, img[p]) {
				whole = true
				break
			}
		}
		if !whole {
			return p
		}
	}
	return ""
}

// secondCrash cuts a second crash into the restart that rb just ran (rb.nest holds the
// restart's key-value units and file events): images = the first crash image + the restart's
// writes up to a cut inside the start-up phase (NewBlockChain's repair: head rewind, freezer
// truncation, snapshot / journal handling), process crash or power loss for the files. Each
// image is rebooted and judged like a first-level image; the re-import target is unchanged
// (the first restart reached it).
func (rb *rebooter) secondCrash(model *simdisk.FSModel, img map[string][]byte, dr *simcore.Rand, stats map[string]int, fp *simcore.Hash64) *simcore.Violation {
	nd := rb.nest
	// candidate cuts: sequence numbers of the start-up phase at which something was written
	var cand []uint64
	for i := range nd.log {
		if nd.log[i].Seq <= nd.openSeq && nd.log[i].Kind != simdisk.OpSync {
			cand = append(cand, nd.log[i].Seq)
		}
	}
	kvUnits := len(cand)
	for i := range nd.rec.Events {
		if ev := &nd.rec.Events[i]; ev.Seq <= nd.openSeq && ev.Kind != simos.EvSync && ev.Kind != simos.EvSyncDir {
			cand = append(cand, ev.Seq)
		}
	}
	if len(cand) == 0 {
		rb.res.Probe("second-crash-skipped-restart-wrote-nothing")
		return nil
	}
	if kvUnits > 0 {
		rb.res.Probe("restart-repaired-key-value-store")
	}
	if len(cand) > kvUnits {
		rb.res.Probe("restart-wrote-files")
	}
	sort.Slice(cand, func(i, j int) bool { return cand[i] < cand[j] })
	n := rb.p.Nested
	if rb.p.MaxCuts == 0 && n < len(cand) && len(cand) <= 12 {
		n = len(cand) // thorough: every cut of a short repair
	}
	seen := map[uint64]bool{}
	for i := 0; i < n; i++ {
		c2 := cand[dr.Intn(len(cand))]
		if n == len(cand) {
			c2 = cand[i]
		}
		if dr.Bool(0.5) && c2 > 0 {
			c2-- // right before the write
		}
		power := dr.Bool(0.5)
		if seen[c2*2+b2u(power)] {
			continue
		}
		seen[c2*2+b2u(power)] = true
		m2 := simdisk.ModelFromImage(model, img, nd.root)
		for j := range nd.rec.Events {
			if nd.rec.Events[j].Seq <= c2 {
				m2.Apply(&nd.rec.Events[j])
			}
		}
		mode, draw := simdisk.ProcessCrash, 0
		if power {
			mode, draw = simdisk.PowerLoss, 1
		}
		img2 := m2.CrashImage(mode, dr, stats)
		mem2 := simdisk.MaterialiseKVOn(nd.base, nd.log, c2)
		rb.res.Reboots++
		stats["second-crash"]++
		rb2 := &rebooter{p: rb.p, kn: rb.kn, tree: rb.tree, h: rb.h, res: rb.res, engine: rb.engine, cut: rb.cut, draw: draw, lost: rb.lost, level: 1, log2: nd.log, cut2: c2}
		v := rb2.run(m2, img2, mem2)
		*fp = fp.U64(c2).U64(b2u(power)).U64(rb2.headNum)
		if v == nil {
			continue
		}
		if power {
			if mp := tornMeta(m2, img2); mp != "" {
				rb.res.Probe("torn-meta-image-violation")
				v.Msg = fmt.Sprintf("torn freezer metadata file %s in the image; symptom [%s / %s]: %s", mp[len(nd.root):], v.Oracle, v.Key, v.Msg)
				v.Key = "reboot-failed:power-loss:torn-freezer-metadata"
			}
		}
		what := "process crash"
		if power {
			what = "power loss"
		}
		v.Msg = fmt.Sprintf("SECOND crash (%s) at seq %d of the restart on the first crash image (start-up phase ends at %d, restart ends at %d; the first restart alone passed every check)\n%s", what, c2, nd.openSeq, nd.endSeq, v.Msg)
		if isKnown(v.Key) {
			rb.res.KnownHit(v.Key)
			continue
		}
		return v
	}
	return nil
}

func b2u(b bool) uint64 {
	if b {
		return 1
	}
	return 0
}
