package chainsim

import (
	"context"
	"fmt"
	"log/slog"
	"os"
	"path/filepath"
	"runtime"
	"strings"
	"sync"
	"sync/atomic"
	"testing/synctest"
	"time"

	"github.com/ethereum/go-ethereum/common"
	"github.com/ethereum/go-ethereum/consensus/ethash"
	"github.com/ethereum/go-ethereum/core"
	"github.com/ethereum/go-ethereum/core/rawdb"
	"github.com/ethereum/go-ethereum/core/types"
	"github.com/ethereum/go-ethereum/ethdb"
	"github.com/ethereum/go-ethereum/event"
	"github.com/ethereum/go-ethereum/log"
	"github.com/ethereum/go-ethereum/rlp"
	"github.com/ethereum/go-ethereum/trie"
	"github.com/ethereum/go-ethereum/triedb/pathdb"

	"verifsim/simcore"
	"verifsim/simdisk"
	"verifsim/simos"
)

// Knobs are the per-run configuration choices.
type Knobs struct {
	Scheme      string `json:"scheme"`             // hash | path
	Snapshots   bool   `json:"snapshots"`          // hash scheme snapshot tree / path scheme flat-state cache
	TxLimit     int64  `json:"tx_limit"`           // 0 = index everything, n = last n blocks
	Archive     bool   `json:"archive,omitempty"`  // hash scheme: commit every state
	MaxDiff     int    `json:"max_diff,omitempty"` // path scheme: pathdb maxDiffLayers (0 = default 128)
	JournalFile bool   `json:"journal_file,omitempty"`
	DirtyZero   bool   `json:"dirty_zero,omitempty"` // TrieDirtyLimit 0 (path scheme: flush the buffer whenever the disk layer moves)
	NoAsync     bool   `json:"no_async,omitempty"`   // path scheme: synchronous buffer flush
	// ValueScale > 1 inflates Batch.ValueSize() of the key-value store (documented as
	// approximate) so that every user of ethdb.IdealBatchSize (hashdb Commit/Cap, snapshot
	// flush, tx indexer) splits its writes into several mutation units with tiny states
	ValueScale int `json:"value_scale,omitempty"`
}

// critPanic is what the root log handler panics with on log.Crit (which would
// otherwise os.Exit the worker).
type critPanic struct{ msg string }

type critHandler struct{ trace bool }

// journalFailed is set when Stop logs that the pathdb journal could not be written
// (the only way to observe it: BlockChain.Stop swallows the error).
var journalFailed atomic.Value

func (h critHandler) Enabled(_ context.Context, l slog.Level) bool {
	return l >= slog.LevelInfo || (h.trace && traceDebug)
}
func (h critHandler) Handle(_ context.Context, r slog.Record) error {
	if r.Level >= log.LevelCrit {
		msg := r.Message
		r.Attrs(func(a slog.Attr) bool { msg += " " + a.Key + "=" + fmt.Sprint(a.Value.Any()); return true })
		panic(critPanic{msg})
	}
	if r.Message == "Failed to journal in-memory trie nodes" {
		r.Attrs(func(a slog.Attr) bool { journalFailed.Store(fmt.Sprint(a.Value.Any())); return false })
	}
	if h.trace {
		msg := r.Message
		r.Attrs(func(a slog.Attr) bool { msg += " " + a.Key + "=" + fmt.Sprint(a.Value.Any()); return true })
		fmt.Printf("    log[%s] %s\n", r.Level, msg)
	}
	return nil
}
func (h critHandler) WithAttrs([]slog.Attr) slog.Handler { return h }
func (h critHandler) WithGroup(string) slog.Handler      { return h }

var prologueOnce sync.Once

var traceOn = os.Getenv("VERIF_TRACE") != ""
var traceDebug = os.Getenv("VERIF_TRACE") == "3"
var traceLogs = os.Getenv("VERIF_TRACE") == "2" || traceDebug

// prologue forces process-wide singletons before the first bubble and installs the
// log handler that turns log.Crit into a panic.
func prologue() {
	prologueOnce.Do(func() {
		core.SenderCacher()
		log.SetDefault(log.NewLogger(critHandler{trace: traceLogs}))
	})
}

func tracef(format string, a ...any) {
	if traceOn {
		fmt.Printf(format+"\n", a...)
	}
}

type evKind uint8

const (
	evChain evKind = iota + 1
	evHead
	evLogs
	evRemoved
)

type chainEv struct {
	kind  evKind
	chain core.ChainEvent
	head  core.ChainHeadEvent
	logs  []*types.Log
}

// collector receives the four feeds on unbuffered channels in one goroutine, so
// that the order of its record is the order of the (sequential) sends.
type collector struct {
	mu      sync.Mutex
	evs     []chainEv
	chainCh chan core.ChainEvent
	headCh  chan core.ChainHeadEvent
	logsCh  chan []*types.Log
	rmCh    chan core.RemovedLogsEvent
	flush   chan chan struct{}
	quit    chan struct{}
	done    chan struct{}
	subs    []event.Subscription
}

func newCollector(bc *core.BlockChain) *collector {
	c := &collector{
		chainCh: make(chan core.ChainEvent), headCh: make(chan core.ChainHeadEvent),
		logsCh: make(chan []*types.Log), rmCh: make(chan core.RemovedLogsEvent),
		flush: make(chan chan struct{}), quit: make(chan struct{}), done: make(chan struct{}),
	}
	c.subs = append(c.subs, bc.SubscribeChainEvent(c.chainCh), bc.SubscribeChainHeadEvent(c.headCh),
		bc.SubscribeLogsEvent(c.logsCh), bc.SubscribeRemovedLogsEvent(c.rmCh))
	go c.loop()
	return c
}

func (c *collector) add(e chainEv) {
	c.mu.Lock()
	c.evs = append(c.evs, e)
	c.mu.Unlock()
}

func (c *collector) loop() {
	defer close(c.done)
	for {
		select {
		case e := <-c.chainCh:
			c.add(chainEv{kind: evChain, chain: e})
		case e := <-c.headCh:
			c.add(chainEv{kind: evHead, head: e})
		case e := <-c.logsCh:
			c.add(chainEv{kind: evLogs, logs: e})
		case e := <-c.rmCh:
			c.add(chainEv{kind: evRemoved, logs: e.Logs})
		case ack := <-c.flush:
			close(ack)
		case <-c.quit:
			return
		}
	}
}

// take returns the events recorded so far (all sends that returned are in it).
func (c *collector) take() []chainEv {
	ack := make(chan struct{})
	c.flush <- ack
	<-ack
	c.mu.Lock()
	defer c.mu.Unlock()
	out := c.evs
	c.evs = nil
	return out
}

func (c *collector) stop() {
	for _, s := range c.subs {
		s.Unsubscribe()
	}
	close(c.quit)
	<-c.done
}

// world is one simulated node: SimKV + files under root, a real BlockChain.
type world struct {
	knobs  Knobs
	tree   *refTree
	root   string
	clock  *simdisk.Clock
	kv     *simdisk.SimKV
	rec    *simos.Recorder
	engine *ethash.Ethash
	db     ethdb.Database
	bc     *core.BlockChain
	col    *collector
	bubble bool

	// oracle state
	live      map[logKey]bool // logs live according to LogsEvent / RemovedLogsEvent
	universe  []common.Address
	res       *simcore.Result
	trace     simcore.Hash64 // observable event log hash
	stateFP   simcore.Hash64
	reorgs    int
	opsDone   int
	headNode  int // node of CurrentBlock after the last operation
	finalNode int // node of the finalized block (-2 = none)
	prevMaxDL int
	// node of the block whose log was announced twice (classification of a finding)
	dupLogBlock   int
	missLogBlocks []int        // nodes whose logs were never announced
	silentDrop    bool         // an InsertChain returned nil without importing its batch
	unexecuted    map[int]bool // blocks stored by insertSideChain without execution (no receipts)
	badBlock      int          // node of the canonical block whose receipts are missing
	gapAt         uint64       // number at which canon() found no canonical hash
	// a lookup that only BlockChain's cache gets wrong (the database is right or silent):
	// the block the cache names
	staleCacheNum  uint64
	staleCacheHash common.Hash
	// crashed: this world was rebooted from a crash image. SetHead and reorg move the
	// head markers first and delete index entries afterwards by design, so entries
	// above the head are legal leftovers there (C39 does not state otherwise).
	crashed bool
}

type logKey struct {
	block common.Hash
	index uint
}

func (k Knobs) config(root string) *core.BlockChainConfig {
	return k.configWait(root, true)
}

// configWait: the uncrashed node waits for the snapshot generator when it opens
// (keeps the generator's progress writes out of the way of the main goroutine's);
// a reboot on a crash image must not: a generator that stops on a missing trie
// node would make NewBlockChain wait forever (SnapshotWait is a test-only knob).
func (k Knobs) configWait(root string, snapshotWait bool) *core.BlockChainConfig {
	cfg := &core.BlockChainConfig{
		TrieCleanLimit:   1,
		TrieDirtyLimit:   1,
		TrieTimeLimit:    5 * time.Minute,
		TrieNoAsyncFlush: k.NoAsync,
		StateScheme:      k.Scheme,
		ArchiveMode:      k.Archive && k.Scheme == rawdb.HashScheme,
		SnapshotLimit:    0,
		// production setting: the snapshot is built in the background (with SnapshotWait a
		// generator that stops on a missing trie node makes NewBlockChain wait forever);
		// the harness waits for quiescence instead
		SnapshotWait:    false,
		TxLookupLimit:   k.TxLimit,
		TrienodeHistory: -1,
	}
	if k.DirtyZero {
		cfg.TrieDirtyLimit = 0
	}
	if k.Snapshots {
		cfg.SnapshotLimit = 1
	}
	if k.JournalFile && k.Scheme == rawdb.PathScheme {
		cfg.TrieJournalDirectory = filepath.Join(root, "journal")
	}
	return cfg
}

func scratchDir() string {
	d := os.Getenv("VERIF_SCRATCH")
	if d == "" {
		d = os.TempDir()
	}
	return d
}

// newWorld creates the scratch root, the recorder and the key-value store and
// opens a fresh chain.
func newWorld(knobs Knobs, tree *refTree, res *simcore.Result, bubble bool) (*world, error) {
	root, err := os.MkdirTemp(scratchDir(), "chain-")
	if err != nil {
		simcore.Harnessf("mkdtemp: %v", err)
	}
	w := &world{knobs: knobs, tree: tree, root: root, clock: &simdisk.Clock{}, res: res, bubble: bubble,
		live: map[logKey]bool{}, universe: tree.universe(), trace: simcore.NewHash(), stateFP: simcore.NewHash(),
		headNode: -1, finalNode: -2, dupLogBlock: -2, unexecuted: map[int]bool{}, badBlock: -2}
	w.kv = simdisk.NewSimKV(w.clock)
	if knobs.ValueScale > 1 {
		w.kv.ValueSizeScale = knobs.ValueScale
	}
	w.rec = simos.NewRecorder(root)
	w.rec.NextSeq = w.clock.Next
	simos.ResetLocks()
	simos.Install(w.rec)
	w.engine = ethash.NewFaker()
	if knobs.Scheme == rawdb.PathScheme && knobs.MaxDiff > 0 {
		w.prevMaxDL = pathdb.VerifChainsimSetMaxDiffLayers(knobs.MaxDiff)
	}
	if err := w.open(); err != nil {
		return w, err
	}
	return w, nil
}

func (w *world) open() error {
	db, err := rawdb.Open(w.kv, rawdb.OpenOptions{Ancient: filepath.Join(w.root, "ancient")})
	if err != nil {
		return fmt.Errorf("rawdb.Open: %w", err)
	}
	w.db = db
	bc, err := core.NewBlockChain(db, w.tree.gspec, w.engine, w.knobs.config(w.root))
	if err != nil {
		db.Close()
		w.db = nil
		return fmt.Errorf("NewBlockChain: %w", err)
	}
	w.bc = bc
	w.col = newCollector(bc)
	return nil
}

// quiesce waits until every background goroutine of the chain (tx indexer,
// asynchronous buffer flush, snapshot generation) is idle.
func (w *world) quiesce() {
	if w.bubble {
		synctest.Wait()
		return
	}
	// outside a bubble idleness cannot be observed; give the indexer real time
	time.Sleep(2 * time.Millisecond)
}

func (w *world) stopChain() {
	if w.col != nil {
		w.col.stop()
		w.col = nil
	}
	if w.bc != nil {
		w.bc.Stop()
		w.bc = nil
	}
	if w.db != nil {
		w.db.Close()
		w.db = nil
	}
}

// close tears the world down (after a violation some parts may be wedged; this
// is best effort and never judges).
func (w *world) close() {
	func() {
		defer func() { recover() }()
		w.stopChain()
	}()
	simos.Install(nil)
	if w.prevMaxDL != 0 {
		pathdb.VerifChainsimSetMaxDiffLayers(w.prevMaxDL)
	}
	w.engine.Close()
	os.RemoveAll(w.root)
}

// guard runs f and converts a panic (log.Crit, runtime error in the tree under
// test) into a violation.
func guard(what string, f func() *simcore.Violation) (v *simcore.Violation) {
	defer func() {
		if r := recover(); r != nil {
			if hp, ok := r.(simcore.HarnessPanic); ok {
				panic(hp)
			}
			if cp, ok := r.(critPanic); ok {
				v = &simcore.Violation{Oracle: "log-crit", Key: "log-crit:" + what + ":" + classOf(cp.msg), Msg: what + ": log.Crit: " + cp.msg}
				return
			}
			msg := fmt.Sprint(r)
			v = &simcore.Violation{Oracle: "panic", Key: "panic:" + what + ":" + classOf(msg), Msg: fmt.Sprintf("%s: panic: %s\n%s", what, msg, shortStack())}
		}
	}()
	return f()
}

func classOf(s string) string {
	out := make([]byte, 0, 48)
	for i := 0; i < len(s) && len(out) < 48; i++ {
		c := s[i]
		switch {
		case c >= '0' && c <= '9':
			if n := len(out); n == 0 || out[n-1] != 'N' {
				out = append(out, 'N')
			}
		case c == '\n':
			return string(out)
		default:
			out = append(out, c)
		}
	}
	return string(out)
}

func shortStack() string {
	buf := make([]byte, 1<<16)
	n := runtime.Stack(buf, false)
	lines := strings.Split(string(buf[:n]), "\n")
	var keep []string
	for _, l := range lines {
		if strings.Contains(l, "go-ethereum") && !strings.HasPrefix(l, "\t") {
			keep = append(keep, l)
			if len(keep) > 12 {
				break
			}
		}
	}
	return strings.Join(keep, "\n")
}

// ---- canonical chain as the chain under test reports it

type canonView struct {
	head, hdr uint64
	nodes     []int // node index per block number 0..hdr
}

// walkTrie resolves every node of the state below root (account trie and storage
// tries) through the chain's trie database.
func walkTrie(bc *core.BlockChain, root common.Hash) error {
	tr, err := trie.NewStateTrie(trie.StateTrieID(root), bc.TrieDB())
	if err != nil {
		return err
	}
	it, err := tr.NodeIterator(nil)
	if err != nil {
		return err
	}
	for it.Next(true) {
		if !it.Leaf() {
			continue
		}
		var acc types.StateAccount
		if err := rlp.DecodeBytes(it.LeafBlob(), &acc); err != nil {
			return fmt.Errorf("account leaf: %v", err)
		}
		if acc.Root != types.EmptyRootHash {
			st, err := trie.NewStateTrie(trie.StorageTrieID(root, common.BytesToHash(it.LeafKey()), acc.Root), bc.TrieDB())
			if err != nil {
				return fmt.Errorf("storage trie: %v", err)
			}
			sit, err := st.NodeIterator(nil)
			if err != nil {
				return err
			}
			for sit.Next(true) {
			}
			if sit.Error() != nil {
				return fmt.Errorf("storage trie: %v", sit.Error())
			}
		}
	}
	return it.Error()
}
