// Package chainsim holds the block-chain level checks: C38 (canonical index under
// reorgs, head changes and restarts) and C39 (restart after a crash). The world is
// a real core.BlockChain on simdisk.SimKV plus the real chain freezer (and pathdb
// journal / state freezers) on files recorded through simos, one shared clock.
package chainsim

import (
	"crypto/ecdsa"
	"fmt"
	"math/big"

	"github.com/ethereum/go-ethereum/common"
	"github.com/ethereum/go-ethereum/consensus/ethash"
	"github.com/ethereum/go-ethereum/core"
	"github.com/ethereum/go-ethereum/core/rawdb"
	"github.com/ethereum/go-ethereum/core/state"
	"github.com/ethereum/go-ethereum/core/types"
	"github.com/ethereum/go-ethereum/crypto"
	"github.com/ethereum/go-ethereum/ethdb"
	"github.com/ethereum/go-ethereum/params"
	"github.com/ethereum/go-ethereum/triedb"

	"verifsim/simcore"
)

// TxSpec is one transaction of a generated block.
type TxSpec struct {
	From int    `json:"f"` // funded account index
	Kind int    `json:"k"` // 0 = value transfer, 1 = call of the log-emitting contract, 2 = call of the loop contract (Val%400+1 logs)
	To   int    `json:"t"` // funded account index (transfers)
	Val  uint64 `json:"v"`
}

// NodeSpec is one block of the reference block tree.
type NodeSpec struct {
	Parent int      `json:"p"` // -1 = genesis, otherwise an earlier node
	Txs    []TxSpec `json:"x,omitempty"`
}

const nAccounts = 4

var (
	acctKeys  [nAccounts]*ecdsa.PrivateKey
	acctAddrs [nAccounts]common.Address
	logAddr   = common.HexToAddress("0x00000000000000000000000000000000000c0de1")
	// log-emitting contract: slot0++ ; LOG1(calldata[0:32], topic=CALLER) ; LOG1(same data, topic=0xbb)
	logCode = common.FromHex("600054600101600055" + "600035600052" + "3360206000a1" + "60bb60206000a1" + "00")
	// second contract: emits calldata[0:32] logs in a loop (LOG1, data = counter, topic = CALLER),
	// so that a reorganisation of a few blocks drops more than 512 logs
	loopAddr = common.HexToAddress("0x00000000000000000000000000000000000c0de2")
	loopCode = common.FromHex("600035" + "5b" + "8015601a57" + "60019003" + "80600052" + "3360206000a1" + "600356" + "5b00")
)

func init() {
	for i := range acctKeys {
		k, err := crypto.ToECDSA(crypto.Keccak256([]byte(fmt.Sprintf("chainsim-account-%d", i))))
		if err != nil {
			panic(err)
		}
		acctKeys[i] = k
		acctAddrs[i] = crypto.PubkeyToAddress(k.PublicKey)
	}
}

func coinbaseOf(node int) common.Address {
	var a common.Address
	a[0] = 0xcb
	a[18] = byte(node >> 8)
	a[19] = byte(node)
	return a
}

func genesisSpec() *core.Genesis {
	alloc := types.GenesisAlloc{
		logAddr:  {Code: logCode, Balance: big.NewInt(1)},
		loopAddr: {Code: loopCode, Balance: big.NewInt(1)},
	}
	bal, _ := new(big.Int).SetString("1000000000000000000000000", 10)
	for _, a := range acctAddrs {
		alloc[a] = types.Account{Balance: bal}
	}
	return &core.Genesis{
		Config:   params.AllEthashProtocolChanges,
		BaseFee:  big.NewInt(params.InitialBaseFee),
		GasLimit: 8_000_000,
		Alloc:    alloc,
	}
}

// refLog is a log of a reference block, with the derived fields filled in.
type refNode struct {
	idx      int
	parent   int
	depth    uint64 // block number
	block    *types.Block
	receipts types.Receipts
	logs     []*types.Log
	txs      []common.Hash
}

// refTree is the reference model of the block tree (refchain of DESIGN 3.6).
type refTree struct {
	gspec   *core.Genesis
	gendb   ethdb.Database
	genesis *types.Block
	nodes   []*refNode
	byHash  map[common.Hash]*refNode // genesis is not in here
	// txHomes: tx hash -> nodes containing it (the same transaction may sit in several forks)
	txHomes map[common.Hash][]int
	txOrder []common.Hash // all tx hashes, first-seen order (deterministic)
	maxNum  uint64
}

// buildTree generates the blocks of the plan with core.GenerateChain, one block
// at a time on top of its parent, in a throw-away hash-scheme database that keeps
// every state (it also serves as the reference state).
func buildTree(specs []NodeSpec) *refTree {
	t := &refTree{gspec: genesisSpec(), gendb: rawdb.NewMemoryDatabase(), byHash: map[common.Hash]*refNode{}, txHomes: map[common.Hash][]int{}}
	tdb := triedb.NewDatabase(t.gendb, triedb.HashDefaults)
	t.genesis = t.gspec.MustCommit(t.gendb, tdb)
	tdb.Close()
	engine := ethash.NewFaker()
	defer engine.Close()
	roots := map[common.Hash]int{t.genesis.Root(): -1}
	for i, sp := range specs {
		if sp.Parent >= i || sp.Parent < -1 {
			simcore.Harnessf("plan: node %d has parent %d", i, sp.Parent)
		}
		parent := t.genesis
		if sp.Parent >= 0 {
			parent = t.nodes[sp.Parent].block
		}
		blocks, receipts := core.GenerateChain(t.gspec.Config, parent, engine, t.gendb, 1, func(_ int, b *core.BlockGen) {
			b.SetCoinbase(coinbaseOf(i))
			b.SetExtra([]byte{byte(i >> 8), byte(i)})
			for _, tx := range sp.Txs {
				from := tx.From % nAccounts
				gasPrice := new(big.Int).Mul(b.BaseFee(), big.NewInt(2))
				var ltx *types.LegacyTx
				if tx.Kind == 2 {
					n := tx.Val%400 + 1
					var data [32]byte
					data[31] = byte(n)
					data[30] = byte(n >> 8)
					ltx = &types.LegacyTx{Nonce: b.TxNonce(acctAddrs[from]), To: &loopAddr, Gas: 40_000 + 1_100*n, GasPrice: gasPrice, Data: data[:]}
				} else if tx.Kind == 1 {
					var data [32]byte
					data[31] = byte(tx.Val)
					data[30] = byte(tx.Val >> 8)
					ltx = &types.LegacyTx{Nonce: b.TxNonce(acctAddrs[from]), To: &logAddr, Gas: 120_000, GasPrice: gasPrice, Data: data[:]}
				} else {
					to := acctAddrs[tx.To%nAccounts]
					ltx = &types.LegacyTx{Nonce: b.TxNonce(acctAddrs[from]), To: &to, Gas: 21_000, GasPrice: gasPrice, Value: new(big.Int).SetUint64(tx.Val)}
				}
				signed, err := types.SignNewTx(acctKeys[from], b.Signer(), ltx)
				if err != nil {
					simcore.Harnessf("sign: %v", err)
				}
				b.AddTx(signed)
			}
		})
		n := &refNode{idx: i, parent: sp.Parent, depth: blocks[0].NumberU64(), block: blocks[0], receipts: receipts[0]}
		for _, r := range receipts[0] {
			n.logs = append(n.logs, r.Logs...)
		}
		for _, tx := range blocks[0].Transactions() {
			h := tx.Hash()
			n.txs = append(n.txs, h)
			if _, ok := t.txHomes[h]; !ok {
				t.txOrder = append(t.txOrder, h)
			}
			t.txHomes[h] = append(t.txHomes[h], i)
		}
		if prev, dup := roots[n.block.Root()]; dup {
			simcore.Harnessf("tree: nodes %d and %d share state root %x", prev, i, n.block.Root())
		}
		roots[n.block.Root()] = i
		if _, dup := t.byHash[n.block.Hash()]; dup {
			simcore.Harnessf("tree: duplicate block hash at node %d", i)
		}
		t.byHash[n.block.Hash()] = n
		t.nodes = append(t.nodes, n)
		if n.depth > t.maxNum {
			t.maxNum = n.depth
		}
	}
	return t
}

// path returns the nodes from the first block after genesis down to idx.
func (t *refTree) path(idx int) []*refNode {
	var rev []*refNode
	for i := idx; i >= 0; i = t.nodes[i].parent {
		rev = append(rev, t.nodes[i])
	}
	for l, r := 0, len(rev)-1; l < r; l, r = l+1, r-1 {
		rev[l], rev[r] = rev[r], rev[l]
	}
	return rev
}

// isAncestorOrSelf reports whether a is on the path from genesis to b (a == -1 is genesis).
func (t *refTree) isAncestorOrSelf(a, b int) bool {
	if a == -1 {
		return true
	}
	for i := b; i >= 0; i = t.nodes[i].parent {
		if i == a {
			return true
		}
	}
	return false
}

// nodeOf maps a block hash to the node index (-1 genesis, -2 unknown).
func (t *refTree) nodeOf(h common.Hash) int {
	if h == t.genesis.Hash() {
		return -1
	}
	if n := t.byHash[h]; n != nil {
		return n.idx
	}
	return -2
}

func (t *refTree) blockOf(idx int) *types.Block {
	if idx == -1 {
		return t.genesis
	}
	return t.nodes[idx].block
}

func (t *refTree) blocks(ns []*refNode) types.Blocks {
	out := make(types.Blocks, len(ns))
	for i, n := range ns {
		out[i] = n.block
	}
	return out
}

// universe is every address the generated blocks can touch.
func (t *refTree) universe() []common.Address {
	out := []common.Address{logAddr, loopAddr, {}}
	out = append(out, acctAddrs[:]...)
	for i := range t.nodes {
		out = append(out, coinbaseOf(i))
	}
	return out
}

// readout renders the accounts of the universe at a state; the same function is
// applied to the reference database and to the chain under test.
func readout(sdb *state.StateDB, addrs []common.Address) string {
	s := ""
	for _, a := range addrs {
		s += fmt.Sprintf("%x:%s/%d/%x/%x;", a[16:], sdb.GetBalance(a), sdb.GetNonce(a), sdb.GetCodeHash(a).Bytes()[:4], sdb.GetState(a, common.Hash{}).Bytes()[28:])
	}
	return s
}

// refReadout is the reference readout at the post-state of a node.
func (t *refTree) refReadout(idx int) string {
	tdb := triedb.NewDatabase(t.gendb, triedb.HashDefaults)
	defer tdb.Close()
	sdb, err := state.New(t.blockOf(idx).Root(), state.NewDatabase(tdb, nil))
	if err != nil {
		simcore.Harnessf("reference state of node %d: %v", idx, err)
	}
	return readout(sdb, t.universe())
}
