package execsim

import (
	"crypto/ecdsa"
	"encoding/binary"
	"encoding/hex"
	"fmt"
	"math/big"
	"sort"

	"github.com/ethereum/go-ethereum/common"
	"github.com/ethereum/go-ethereum/consensus"
	"github.com/ethereum/go-ethereum/consensus/beacon"
	"github.com/ethereum/go-ethereum/consensus/ethash"
	"github.com/ethereum/go-ethereum/core"
	"github.com/ethereum/go-ethereum/core/rawdb"
	"github.com/ethereum/go-ethereum/core/types"
	"github.com/ethereum/go-ethereum/ethdb"
	"github.com/ethereum/go-ethereum/params"
	"github.com/holiman/uint256"

	"verifsim/simcore"
)

type keyT struct {
	key  *ecdsa.PrivateKey
	addr common.Address
}

// HexBytes marshals as a hex string.
type HexBytes []byte

func (h HexBytes) MarshalText() ([]byte, error) { return []byte(hex.EncodeToString(h)), nil }
func (h *HexBytes) UnmarshalText(b []byte) error {
	d, err := hex.DecodeString(string(b))
	*h = d
	return err
}

type SlotVal struct {
	Slot uint64 `json:"slot"`
	Val  uint64 `json:"val"`
}

type Account struct {
	Addr    common.Address `json:"addr"`
	Code    HexBytes       `json:"code"`
	Balance uint64         `json:"balance"`
	Storage []SlotVal      `json:"storage,omitempty"`
}

type Tx struct {
	From  int             `json:"from"`
	To    *common.Address `json:"to"` // nil = contract creation
	Value uint64          `json:"value"`
	Gas   uint64          `json:"gas"` // execution gas on top of the intrinsic / floor cost
	Tip   uint64          `json:"tip"` // gwei
	Data  HexBytes        `json:"data,omitempty"`
	Auths []Auth          `json:"auths,omitempty"` // non-empty = EIP-7702 set-code transaction (Prague+, To must be set)
}

// Auth is one EIP-7702 authorization of a set-code transaction. Signer indexes senderKeys (a funded sender or one
// of the world's extra, unfunded authorities). Target nil = the zero address = clear the delegation. The builder signs
// it with the authority's nonce at that point of block generation plus Skew (Skew != 0 makes it invalid: skipped by geth).
type Auth struct {
	Signer int             `json:"signer"`
	Target *common.Address `json:"target"`
	Skew   int             `json:"skew,omitempty"`
}

// Deleg is a delegation that already exists in genesis.
type Deleg struct {
	Signer int            `json:"signer"`
	To     common.Address `json:"to"`
}

type Wd struct {
	To     common.Address `json:"to"`
	Amount uint64         `json:"amount"` // gwei
}

type Block struct {
	Coinbase   common.Address `json:"coinbase"`
	BeaconRoot common.Hash    `json:"beacon_root"`
	Txs        []Tx           `json:"txs"`
	Wds        []Wd           `json:"wds,omitempty"`
}

// World is the explicit description of a genesis and the blocks on top of it.
type World struct {
	Fork      string    `json:"fork"` // cancun | prague | osaka | amsterdam
	GasLimit  uint64    `json:"gas_limit"`
	Senders   int       `json:"senders"`
	Contracts []Account `json:"contracts"`
	Blocks    []Block   `json:"blocks"`
	// Authorities is the number of extra, unfunded EOAs (senderKeys[Senders .. Senders+Authorities)) that only sign
	// authorizations; Delegs are delegations present in genesis.
	Authorities int     `json:"authorities,omitempty"`
	Delegs      []Deleg `json:"delegs,omitempty"`
}

func u64p(v uint64) *uint64 { return &v }

func chainConfig(fork string) *params.ChainConfig {
	cfg := *params.MergedTestChainConfig
	switch fork {
	case "cancun":
		cfg.PragueTime, cfg.OsakaTime = nil, nil
	case "prague":
		cfg.OsakaTime = nil
	case "osaka":
	case "amsterdam":
		cfg.AmsterdamTime = u64p(0)
	default:
		simcore.Harnessf("execsim: unknown fork %q", fork)
	}
	return &cfg
}

func isPrague(fork string) bool { return fork != "cancun" }

func (w *World) genesis() *core.Genesis {
	cfg := chainConfig(w.Fork)
	alloc := types.GenesisAlloc{}
	if isPrague(w.Fork) {
		alloc[params.BeaconRootsAddress] = types.Account{Nonce: 1, Code: params.BeaconRootsCode, Balance: common.Big0}
		alloc[params.HistoryStorageAddress] = types.Account{Nonce: 1, Code: params.HistoryStorageCode, Balance: common.Big0}
		alloc[params.WithdrawalQueueAddress] = types.Account{Nonce: 1, Code: params.WithdrawalQueueCode, Balance: common.Big0}
		alloc[params.ConsolidationQueueAddress] = types.Account{Nonce: 1, Code: params.ConsolidationQueueCode, Balance: common.Big0}
	} else {
		alloc[params.BeaconRootsAddress] = types.Account{Nonce: 1, Code: params.BeaconRootsCode, Balance: common.Big0}
	}
	if w.Fork == "amsterdam" {
		alloc[params.BuilderDepositAddress] = types.Account{Nonce: 1, Code: params.BuilderDepositCode, Balance: common.Big0}
		alloc[params.BuilderExitAddress] = types.Account{Nonce: 1, Code: params.BuilderExitCode, Balance: common.Big0}
	}
	for i := 0; i < w.Senders; i++ {
		alloc[senderAddr(i)] = types.Account{Balance: new(big.Int).Mul(big.NewInt(1_000_000), big.NewInt(params.Ether))}
	}
	for _, d := range w.Delegs {
		if d.Signer < 0 || d.Signer >= w.Senders+w.Authorities || d.Signer >= len(senderKeys) {
			continue
		}
		acc := alloc[senderAddr(d.Signer)]
		if acc.Balance == nil {
			acc.Balance = new(big.Int)
		}
		acc.Code = types.AddressToDelegation(d.To)
		alloc[senderAddr(d.Signer)] = acc
	}
	for _, c := range w.Contracts {
		acc := types.Account{Nonce: 1, Code: c.Code, Balance: new(big.Int).SetUint64(c.Balance)}
		if len(c.Storage) > 0 {
			acc.Storage = map[common.Hash]common.Hash{}
			for _, sv := range c.Storage {
				if sv.Val != 0 {
					acc.Storage[common.BigToHash(new(big.Int).SetUint64(sv.Slot))] = common.BigToHash(new(big.Int).SetUint64(sv.Val))
				}
			}
		}
		alloc[c.Addr] = acc
	}
	return &core.Genesis{Config: cfg, Alloc: alloc, GasLimit: w.GasLimit, BaseFee: big.NewInt(params.InitialBaseFee), Difficulty: common.Big0}
}

// safeNonce is BlockGen.TxNonce for accounts that may not exist yet.
func safeNonce(g *core.BlockGen, addr common.Address) (n uint64) {
	defer func() {
		if recover() != nil {
			n = 0
		}
	}()
	return g.TxNonce(addr)
}

func newEngine() consensus.Engine { return beacon.New(ethash.NewFaker()) }

// builder generates the world's blocks one at a time with core.GenerateChain (sequential
// execution, which also produces the block access list after Amsterdam).
type builder struct {
	w            *World
	gspec        *core.Genesis
	engine       consensus.Engine
	db           ethdb.Database
	parent       *types.Block
	signer       types.Signer
	dropped      int // transactions the generator could not include (gas pool, nonce cap); deterministic
	lastReceipts types.Receipts
	nonces       map[int]uint64   // state nonce of every sender after the last generated block
	hdrChain     *core.BlockChain // if set, BLOCKHASH during generation resolves ancestors through this chain
}

func newBuilder(w *World) *builder {
	gspec := w.genesis()
	engine := newEngine()
	db, blocks, _ := core.GenerateChainWithGenesis(gspec, engine, 0, nil)
	_ = blocks
	b := &builder{w: w, gspec: gspec, engine: engine, db: db, signer: types.LatestSigner(gspec.Config), nonces: map[int]uint64{}}
	b.parent = gspec.ToBlock()
	return b
}

// next generates block i of the world on top of the previous one.
func (b *builder) next(i int) (*types.Block, types.Receipts) {
	bp := &b.w.Blocks[i]
	cfg := b.gspec.Config
	blocks, receipts := core.GenerateChain(cfg, b.parent, b.engine, b.db, 1, func(_ int, g *core.BlockGen) {
		g.SetCoinbase(bp.Coinbase)
		g.SetParentBeaconRoot(bp.BeaconRoot)
		rules := cfg.Rules(g.Number(), true, g.Timestamp())
		for _, tp := range bp.Txs {
			if tp.From < 0 || tp.From >= b.w.Senders {
				continue
			}
			from := senderKeys[tp.From]
			value := new(uint256.Int).SetUint64(tp.Value)
			var auths []types.SetCodeAuthorization
			if len(tp.Auths) > 0 {
				if !rules.IsPrague || tp.To == nil {
					b.dropped++
					continue
				}
				bumped := map[common.Address]uint64{}
				for _, a := range tp.Auths {
					if a.Signer < 0 || a.Signer >= b.w.Senders+b.w.Authorities || a.Signer >= len(senderKeys) {
						continue
					}
					k := senderKeys[a.Signer]
					nonce := safeNonce(g, k.addr) + bumped[k.addr]
					if k.addr == from.addr {
						nonce++ // the sender's nonce is bumped before the authorizations are applied
					}
					if a.Skew == 0 {
						bumped[k.addr]++
					}
					var target common.Address
					if a.Target != nil {
						target = *a.Target
					}
					auth, err := types.SignSetCode(k.key, types.SetCodeAuthorization{ChainID: *uint256.MustFromBig(cfg.ChainID), Address: target, Nonce: uint64(int64(nonce) + int64(a.Skew))})
					if err != nil {
						continue
					}
					auths = append(auths, auth)
				}
				if len(auths) == 0 {
					b.dropped++
					continue
				}
			}
			intr, err := core.IntrinsicGas(tp.Data, nil, auths, from.addr, tp.To, value, rules)
			if err != nil {
				b.dropped++
				continue
			}
			gas := intr
			if rules.IsPrague {
				floor, err := core.FloorDataGas(rules, from.addr, tp.To, value, tp.Data, nil)
				if err != nil {
					b.dropped++
					continue
				}
				gas = max(gas, floor)
			}
			gas += tp.Gas
			if !rules.IsAmsterdam && rules.IsOsaka && gas > params.MaxTxGas {
				gas = params.MaxTxGas
			}
			if !g.VerifExecsimFits(gas) {
				b.dropped++
				continue
			}
			feeCap := new(big.Int).Add(g.BaseFee(), new(big.Int).Mul(big.NewInt(int64(tp.Tip)), big.NewInt(params.GWei)))
			// a delegated sender may have given its balance away (code running in its context): never feed AddTx a
			// transaction it would panic on
			need := new(big.Int).Mul(feeCap, new(big.Int).SetUint64(gas))
			need.Add(need, new(big.Int).SetUint64(tp.Value))
			if g.GetBalance(from.addr).ToBig().Cmp(need) < 0 {
				b.dropped++
				continue
			}
			var tx *types.Transaction
			if len(auths) > 0 {
				tx = types.MustSignNewTx(from.key, b.signer, &types.SetCodeTx{
					ChainID:   uint256.MustFromBig(cfg.ChainID),
					Nonce:     g.TxNonce(from.addr),
					To:        *tp.To,
					Value:     value,
					Gas:       gas,
					GasFeeCap: uint256.MustFromBig(feeCap),
					GasTipCap: uint256.MustFromBig(new(big.Int).Mul(big.NewInt(int64(tp.Tip)), big.NewInt(params.GWei))),
					Data:      tp.Data,
					AuthList:  auths,
				})
			} else {
				tx = types.MustSignNewTx(from.key, b.signer, &types.DynamicFeeTx{
					ChainID:   cfg.ChainID,
					Nonce:     g.TxNonce(from.addr),
					To:        tp.To,
					Value:     new(big.Int).SetUint64(tp.Value),
					Gas:       gas,
					GasFeeCap: feeCap,
					GasTipCap: new(big.Int).Mul(big.NewInt(int64(tp.Tip)), big.NewInt(params.GWei)),
					Data:      tp.Data,
				})
			}
			if b.hdrChain != nil {
				g.AddTxWithChain(b.hdrChain, tx)
			} else {
				g.AddTx(tx)
			}
		}
		for i := 0; i < b.w.Senders; i++ {
			b.nonces[i] = safeNonce(g, senderAddr(i))
		}
		for _, wd := range bp.Wds {
			g.AddWithdrawal(&types.Withdrawal{Validator: 7, Address: wd.To, Amount: wd.Amount})
		}
	})
	b.parent = blocks[0]
	b.lastReceipts = receipts[0]
	return blocks[0], receipts[0]
}

// ---- world generation

type worldOpts struct {
	forks      []string
	maxBlocks  int
	maxTxs     int
	maxContr   int
	lowGasProb float64
	blockhash  bool
	pressure   bool // sometimes build worlds under block gas pressure (Amsterdam two-dimensional gas pool)
}

func genWorld(r *simcore.Rand, o worldOpts) *World {
	w := &World{Fork: o.forks[r.Intn(len(o.forks))]}
	w.GasLimit = []uint64{8_000_000, 30_000_000, 60_000_000, 100_000_000}[r.Pick(1, 3, 3, 2)]
	// gas pressure: a block gas limit that a few transactions can exhaust, transactions whose gas limit is
	// above the per-transaction execution cap (params.MaxTxGas) and transactions that burn all they get
	pressure := o.pressure && r.Bool(0.3)
	if pressure {
		w.GasLimit = []uint64{30_000_000, 36_000_000, 45_000_000}[r.Intn(3)]
	}
	w.Senders = r.Range(1, 5)
	nc := r.Range(2, o.maxContr)
	nfresh := r.Range(1, 4)
	env := &progEnv{nslots: r.Range(2, 4), system: isPrague(w.Fork), mcopy: true, blockhash: o.blockhash}
	for i := 0; i < w.Senders; i++ {
		env.eoas = append(env.eoas, senderAddr(i))
	}
	// EIP-7702 (Prague+): extra unfunded authorities, delegations already present in genesis
	setcode := isPrague(w.Fork)
	delegated := map[int]bool{}
	if setcode {
		w.Authorities = r.Range(0, min(2, len(senderKeys)-w.Senders))
		for i := 0; i < w.Authorities; i++ {
			env.eoas = append(env.eoas, senderAddr(w.Senders+i))
		}
	}
	for i := 0; i < nfresh; i++ {
		env.fresh = append(env.fresh, freshAddr(i))
	}
	for i := 0; i < nc; i++ {
		env.all = append(env.all, contractAddr(i))
	}
	for i := 0; i < nc; i++ {
		env.lower = env.all[:i]
		env.selfIdx = i
		c := Account{Addr: contractAddr(i), Code: genRuntime(r, env), Balance: uint64(r.Intn(3)) * uint64(r.Range(1, 1000))}
		for s := 0; s < env.nslots; s++ {
			if r.Bool(0.5) {
				c.Storage = append(c.Storage, SlotVal{uint64(s), uint64(r.Range(1, 3))})
			}
		}
		w.Contracts = append(w.Contracts, c)
	}
	env.lower = env.all
	if setcode {
		for i := 0; i < w.Senders+w.Authorities; i++ {
			if r.Bool(0.3) {
				w.Delegs = append(w.Delegs, Deleg{Signer: i, To: env.all[r.Intn(len(env.all))]})
				delegated[i] = true
			}
		}
	}
	// coinbase candidates: a fresh account, a sender, a contract
	pickAny := func() common.Address {
		switch r.Pick(3, 2, 2) {
		case 0:
			return env.fresh[r.Intn(len(env.fresh))]
		case 1:
			return env.eoas[r.Intn(len(env.eoas))]
		default:
			return env.all[r.Intn(len(env.all))]
		}
	}
	nb := r.Range(1, o.maxBlocks)
	for bi := 0; bi < nb; bi++ {
		blk := Block{Coinbase: pickAny(), BeaconRoot: common.BytesToHash(r.Bytes(32))}
		nt := r.Range(1, o.maxTxs)
		if r.Bool(0.05) {
			nt = 0
		}
		for ti := 0; ti < nt; ti++ {
			tx := Tx{From: r.Intn(w.Senders), Tip: uint64(r.Intn(3))}
			switch r.Pick(12, 3, 2, 2, 2) {
			case 0: // call a contract
				to := env.all[r.Intn(len(env.all))]
				tx.To = &to
				if r.Bool(0.6) {
					d := make([]byte, 32)
					binary.BigEndian.PutUint64(d[24:], uint64(r.Intn(8)))
					tx.Data = d
				}
				if r.Bool(0.3) {
					tx.Value = uint64(r.Range(1, 9))
				}
			case 1: // plain value transfer
				to := pickAny()
				tx.To = &to
				tx.Value = uint64(r.Range(0, 1000))
			case 2: // contract creation
				tx.Data = genInit(r, env)
				if r.Bool(0.3) {
					tx.Value = uint64(r.Range(1, 9))
				}
			case 3: // system contract, called directly
				if env.system {
					var to common.Address
					if r.Bool(0.5) {
						to = params.WithdrawalQueueAddress
						d := make([]byte, 56)
						copy(d, r.Bytes(48))
						binary.BigEndian.PutUint64(d[48:], uint64(r.Range(0, 1000)))
						tx.Data = d
					} else {
						to = params.ConsolidationQueueAddress
						tx.Data = r.Bytes(96)
					}
					tx.To = &to
					tx.Value = uint64(r.Range(0, 3))
				} else {
					to := pickAny()
					tx.To = &to
				}
			default: // precompile
				to := common.BytesToAddress([]byte{byte(r.Range(1, 9))})
				tx.To = &to
				tx.Data = r.Bytes(r.Intn(64))
				tx.Value = uint64(r.Intn(2))
			}
			if setcode && r.Bool(0.12) {
				// EIP-7702 set-code transaction: set, re-point or clear delegations of senders / authorities
				na := w.Senders + w.Authorities
				to := pickAny()
				if r.Bool(0.4) {
					to = senderAddr(r.Intn(na))
				}
				tx = Tx{From: tx.From, Tip: tx.Tip, To: &to, Value: uint64(r.Intn(3))}
				if r.Bool(0.3) {
					tx.Data = r.Bytes(32)
				}
				for k := r.Range(1, 2); k > 0; k-- {
					a := Auth{Signer: r.Intn(na)}
					clearP := 0.2
					if delegated[a.Signer] {
						clearP = 0.6
					}
					switch {
					case r.Bool(clearP): // clear
						delegated[a.Signer] = false
					case r.Bool(0.85):
						t := env.all[r.Intn(len(env.all))]
						a.Target = &t
						delegated[a.Signer] = true
					default: // delegate to a non-contract
						t := pickAny()
						a.Target = &t
						delegated[a.Signer] = true
					}
					if r.Bool(0.08) {
						a.Skew = []int{-1, 1, 5}[r.Intn(3)]
					}
					tx.Auths = append(tx.Auths, a)
				}
			} else if setcode && r.Bool(0.1) {
				// observer: init code that looks at an authority's code from outside and stores what it sees
				au := senderAddr(r.Intn(w.Senders + w.Authorities))
				a := newAsm()
				a.pushAddr(au).op(opEXTCODEHASH).push(0).op(opSSTORE)
				a.pushAddr(au).op(opEXTCODESIZE).push(1).op(opSSTORE)
				a.push(32).push(0).push(0).pushAddr(au).op(opEXTCODECOPY).push(0).op(opMLOAD).push(2).op(opSSTORE)
				if r.Bool(0.5) {
					emitCall(a, opCALL, 0, au, uint64(r.Intn(2)), 0, 32)
					a.push(0).op(opMLOAD).push(3).op(opSSTORE)
				}
				a.push(0).push(0).op(opRETURN)
				tx = Tx{From: tx.From, Tip: tx.Tip, Data: a.bytes()}
			}
			if pressure && r.Bool(0.3) {
				// burner: init code INVALID consumes all execution gas the transaction may use
				tx = Tx{From: tx.From, Tip: tx.Tip, Data: HexBytes{opINVALID}}
			}
			switch {
			case pressure && r.Bool(0.35):
				tx.Gas = uint64(r.Range(16_000_000, 29_000_000)) // limit above params.MaxTxGas
			case pressure && r.Bool(0.4):
				tx.Gas = uint64(r.Range(5_000_000, 16_000_000))
			case o.pressure && r.Bool(0.03):
				tx.Gas = uint64(r.Range(16_000_000, 29_000_000))
			case r.Bool(o.lowGasProb):
				tx.Gas = uint64(r.Range(0, 60_000)) // often runs out of gas
			case r.Bool(0.15):
				tx.Gas = uint64(r.Range(2_000_000, 12_000_000))
			default:
				tx.Gas = uint64(r.Range(200_000, 2_000_000))
			}
			blk.Txs = append(blk.Txs, tx)
		}
		if r.Bool(0.4) {
			for k := r.Range(1, 3); k > 0; k-- {
				blk.Wds = append(blk.Wds, Wd{To: pickAny(), Amount: uint64(r.Range(0, 5))})
			}
		}
		w.Blocks = append(w.Blocks, blk)
	}
	return w
}

// ---- misc helpers shared by the checks

func sortedKeys[V any](m map[string]V) []string {
	ks := make([]string, 0, len(m))
	for k := range m {
		ks = append(ks, k)
	}
	sort.Strings(ks)
	return ks
}

func newSimDB(kv ethdb.KeyValueStore) ethdb.Database { return rawdb.NewDatabase(kv) }

func errStr(err error) string {
	if err == nil {
		return "<nil>"
	}
	s := err.Error()
	if len(s) > 300 {
		s = s[:300] + "..."
	}
	return s
}

var _ = fmt.Sprintf
