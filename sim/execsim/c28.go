package execsim

import (
	"bytes"
	"encoding/binary"
	"encoding/json"
	"fmt"
	"math/big"
	"runtime"
	"strings"
	"sync"
	"testing"

	"github.com/ethereum/go-ethereum/common"
	"github.com/ethereum/go-ethereum/core"
	"github.com/ethereum/go-ethereum/core/rawdb"
	"github.com/ethereum/go-ethereum/core/state"
	"github.com/ethereum/go-ethereum/core/tracing"
	"github.com/ethereum/go-ethereum/core/types"
	"github.com/ethereum/go-ethereum/core/vm"
	vmrt "github.com/ethereum/go-ethereum/core/vm/runtime"
	"github.com/ethereum/go-ethereum/params"
	"github.com/ethereum/go-ethereum/triedb"
	"github.com/holiman/uint256"

	"verifsim/simcore"
	"verifsim/simdisk"
)

// Msg is one message of the corpus.
type Msg struct {
	Kind    int            `json:"kind"` // 0 call a contract of the world, 1 create (Input = init code), 2 execute ad-hoc code (runtime.Execute)
	To      common.Address `json:"to"`
	Code    HexBytes       `json:"code,omitempty"`
	Input   HexBytes       `json:"input,omitempty"`
	Value   uint64         `json:"value"`
	Gas     uint64         `json:"gas"`
	ZeroRet bool           `json:"zero_ret,omitempty"` // by construction the return data is memory the program never wrote
}

// Step executes one message in one way.
type Step struct {
	Msg    int `json:"msg"`
	Flavor int `json:"flavor"` // 0 vm/runtime.Call|Create|Execute (private caches), 1 same call sequence on runtime.NewEnv with the shared caches + Release, 2 nested under Depth wrapper frames (shared caches)
	Depth  int `json:"depth"`
}

type Plan28 struct {
	Fork      string    `json:"fork"`
	Contracts []Account `json:"contracts"`
	Msgs      []Msg     `json:"msgs"`
	Seq       []Step    `json:"seq"`    // phase B1: one goroutine, this order
	Actors    [][]Step  `json:"actors"` // phase B2: one goroutine per list, all at once
	Barrier   bool      `json:"barrier"`
	Procs     int       `json:"procs"`
}

var (
	wrapperAddr = derivedAddr("wrapper", 0)
	originAddr  = derivedAddr("origin", 0)
	coinbase28  = derivedAddr("coinbase", 0)
)

// wrapperCode: calldata = depth | target | value | gas | input...
// depth > 0: call self with depth-1 and pass the answer through. depth == 0: CALL target with
// exactly `gas`, answer = success | execution gas consumed around the call | return data.
func wrapperCode() []byte {
	a := newAsm()
	inner := a.newLabel()
	a.push(0).op(opCALLDATALOAD, opISZERO).pushLabel(inner).op(opJUMPI)
	a.op(opCALLDATASIZE).push(0).push(0).op(opCALLDATACOPY)
	a.push(1).push(0).op(opMLOAD, opSUB).push(0).op(opMSTORE)
	a.push(0).push(0).op(opCALLDATASIZE).push(0).push(0).op(opADDRESS, opGAS, opCALL, opPOP)
	a.op(opRETURNDATASIZE).push(0).push(0).op(opRETURNDATACOPY)
	a.op(opRETURNDATASIZE).push(0).op(opRETURN)
	a.mark(inner)
	a.push(128).op(opCALLDATASIZE, opSUB)             // [n]
	a.op(opDUP1).push(128).push(0).op(opCALLDATACOPY) // mem[0:n] = input
	a.op(opGAS)                                       // [n g0]
	a.push(0).push(0).op(opDUP1 + 3).push(0)          // [n g0 0 0 n 0]
	a.push(64).op(opCALLDATALOAD).push(32).op(opCALLDATALOAD).push(96).op(opCALLDATALOAD)
	a.op(opCALL)                                      // [n g0 ok]
	a.push(0).op(opMSTORE)                            // mem[0] = ok
	a.op(opGAS, opSWAP1, opSUB).push(32).op(opMSTORE) // mem[32] = g0 - g1
	a.op(opPOP)
	a.op(opRETURNDATASIZE).push(0).push(64).op(opRETURNDATACOPY)
	a.op(opRETURNDATASIZE).push(64).op(opADD).push(0).op(opRETURN)
	return a.bytes()
}

// jumpyInit returns two init codes of equal length whose byte at pc 5 is a JUMPDEST
// instruction in the first and PUSH data in the second; both jump to pc 5.
func jumpyInit(variant int) []byte {
	a := newAsm()
	if variant == 0 {
		a.push(5).op(opJUMP)      // 0..2
		a.op(opPUSH1, opJUMPDEST) // 3,4 (data)
		a.op(opJUMPDEST)          // 5: real destination
		a.push(1).push(1).op(opSSTORE, opSTOP)
	} else {
		a.push(5).op(opJUMP)      // 0..2
		a.op(opSTOP)              // 3
		a.op(opPUSH1, opJUMPDEST) // 4,5: 0x5b at pc 5 is push data
		a.push(1).push(1).op(opSSTORE, opSTOP)
	}
	return a.bytes()
}

func gen28(r *simcore.Rand, tier string) any {
	p := &Plan28{Fork: []string{"cancun", "prague", "osaka", "amsterdam"}[r.Intn(4)]}
	p.Procs = []int{1, 2, 4, 8, 16}[r.Intn(5)]
	nc := r.Range(3, 7)
	env := &progEnv{nslots: r.Range(2, 4), system: false, mcopy: true, heavy: true}
	env.eoas = []common.Address{originAddr}
	for i := 0; i < 3; i++ {
		env.fresh = append(env.fresh, freshAddr(i))
	}
	for i := 0; i < nc; i++ {
		env.all = append(env.all, contractAddr(i))
	}
	for i := 0; i < nc; i++ {
		env.lower = env.all[:i]
		c := Account{Addr: contractAddr(i), Code: genRuntime(r, env), Balance: uint64(r.Range(0, 1000))}
		for s := 0; s < env.nslots; s++ {
			if r.Bool(0.5) {
				c.Storage = append(c.Storage, SlotVal{uint64(s), uint64(r.Range(1, 3))})
			}
		}
		p.Contracts = append(p.Contracts, c)
	}
	env.lower = env.all
	nm := r.Range(10, 40)
	if tier == "quick" {
		nm = r.Range(8, 24)
	}
	for i := 0; i < nm; i++ {
		m := Msg{Gas: uint64(r.Range(30_000, 3_000_000))}
		if r.Bool(0.1) {
			m.Gas = uint64(r.Range(1_000, 30_000))
		}
		switch r.Pick(10, 3, 4, 3, 3, 3, 3) {
		case 0:
			m.Kind, m.To = 0, env.all[r.Intn(nc)]
			if r.Bool(0.7) {
				d := make([]byte, 32*r.Range(1, 2))
				binary.BigEndian.PutUint64(d[24:], uint64(r.Intn(16)))
				m.Input = d
			}
			if r.Bool(0.3) {
				m.Value = uint64(r.Range(1, 9))
			}
		case 1:
			m.Kind = 1
			if r.Bool(0.4) {
				m.Input = jumpyInit(r.Intn(2))
			} else {
				m.Input = genInit(r, env)
			}
		case 2:
			m.Kind, m.Code = 2, genRuntime(r, env)
			m.Input = r.Bytes(r.Intn(3) * 32)
		default: // probe of memory the program never wrote
			off := uint64(r.Range(0, 15000))
			n := uint64(r.Range(1, 8)) * 32
			a := newAsm()
			if r.Bool(0.5) {
				// touch far memory first so that the buffer is large, then return a window of it
				a.push(off+n+uint64(r.Range(0, 512))).op(opMLOAD, opPOP)
			}
			a.push(n).push(off).op(opRETURN)
			m.Kind, m.Code, m.ZeroRet = 2, a.bytes(), true
		case 4: // writer of large memory: non-zero data from 16 KiB upwards
			a := newAsm()
			for k := r.Range(1, 2); k > 0; k-- {
				emitBigFlood(a, r, env)
			}
			a.op(opSTOP)
			m.Kind, m.Code, m.Gas = 2, a.bytes(), uint64(r.Range(600_000, 3_000_000))
		case 5: // probe of never-written memory above 16 KiB
			off := bigOffset(r)
			n := uint64(r.Range(1, 8)) * 32
			a := newAsm()
			if r.Bool(0.4) {
				a.push(off+n+uint64(r.Range(0, 100_000))).op(opMLOAD, opPOP)
			}
			a.push(n).push(off).op(opRETURN)
			m.Kind, m.Code, m.ZeroRet, m.Gas = 2, a.bytes(), true, uint64(r.Range(600_000, 3_000_000))
		case 6: // reader: hashes / copies / logs / passes on never-written memory above 16 KiB
			a := newAsm()
			for k := r.Range(1, 4); k > 0; k-- {
				emitBigRead(a, r, env)
			}
			a.push(64).push(0).op(opRETURN)
			m.Kind, m.Code, m.Gas = 2, a.bytes(), uint64(r.Range(600_000, 3_000_000))
		}
		p.Msgs = append(p.Msgs, m)
	}
	// always have both jumpy variants in the corpus
	p.Msgs = append(p.Msgs, Msg{Kind: 1, Input: jumpyInit(0), Gas: 1_000_000}, Msg{Kind: 1, Input: jumpyInit(1), Gas: 1_000_000})
	step := func() Step {
		s := Step{Msg: r.Intn(len(p.Msgs)), Flavor: r.Pick(2, 4, 4)}
		if s.Flavor == 2 {
			if p.Msgs[s.Msg].Kind == 1 {
				s.Flavor = 1
			} else {
				switch r.Pick(5, 3, 1) {
				case 0:
					s.Depth = r.Range(0, 8)
				case 1:
					s.Depth = r.Range(9, 120)
				default:
					s.Depth = r.Range(121, 600)
				}
			}
		}
		return s
	}
	for i := r.Range(10, 40); i > 0; i-- {
		p.Seq = append(p.Seq, step())
	}
	na := r.Range(2, 8)
	per := r.Range(3, 12)
	for a := 0; a < na; a++ {
		var l []Step
		for i := 0; i < per; i++ {
			l = append(l, step())
		}
		p.Actors = append(p.Actors, l)
	}
	p.Barrier = r.Bool(0.7)
	return p
}

func decode28(b []byte) (any, error) {
	p := &Plan28{}
	err := json.Unmarshal(b, p)
	return p, err
}

func clone28(p *Plan28) *Plan28 {
	b, _ := json.Marshal(p)
	q := &Plan28{}
	json.Unmarshal(b, q)
	return q
}

func shrink28(pl any) []any {
	p := pl.(*Plan28)
	var out []any
	if len(p.Actors) > 0 && len(p.Seq) > 0 {
		q := clone28(p)
		q.Actors = nil
		out = append(out, q)
		q = clone28(p)
		q.Seq = nil
		out = append(out, q)
	}
	for _, as := range simcore.ShrinkSlice(p.Actors) {
		if len(as) == 1 {
			continue // one actor is the sequential phase
		}
		q := clone28(p)
		q.Actors = as
		out = append(out, q)
	}
	for _, ss := range simcore.ShrinkSlice(p.Seq) {
		q := clone28(p)
		q.Seq = ss
		out = append(out, q)
	}
	for ai := range p.Actors {
		for _, ss := range simcore.ShrinkSlice(p.Actors[ai]) {
			if len(ss) == 0 {
				continue
			}
			q := clone28(p)
			q.Actors[ai] = ss
			out = append(out, q)
			if len(out) > 200 {
				break
			}
		}
	}
	// lower depths
	lower := func(ss []Step) bool {
		ch := false
		for i := range ss {
			if ss[i].Depth > 0 {
				ss[i].Depth /= 2
				ch = true
			}
		}
		return ch
	}
	q := clone28(p)
	ch := lower(q.Seq)
	for ai := range q.Actors {
		ch = lower(q.Actors[ai]) || ch
	}
	if ch {
		out = append(out, q)
	}
	if p.Procs != 4 {
		q := clone28(p)
		q.Procs = 4
		out = append(out, q)
	}
	return out
}

// ---- execution

type world28 struct {
	cfg    *params.ChainConfig
	sdb    state.Database
	root   common.Hash
	kv     *simdisk.SimKV
	jd     vm.JumpDestCache
	pc     *vm.PrecompileCache
	rules  params.Rules
	number *big.Int
	time   uint64
}

func newWorld28(p *Plan28) *world28 {
	w := &world28{cfg: chainConfig(p.Fork), kv: simdisk.NewSimKV(nil), number: big.NewInt(5), time: 50}
	db := rawdb.NewDatabase(w.kv)
	tdb := triedb.NewDatabase(db, triedb.HashDefaults)
	w.sdb = state.NewDatabase(tdb, state.NewCodeDB(db))
	st, err := state.New(types.EmptyRootHash, w.sdb)
	if err != nil {
		simcore.Harnessf("execsim C28: empty state: %v", err)
	}
	for _, c := range p.Contracts {
		st.CreateAccount(c.Addr)
		st.SetNonce(c.Addr, 1, tracing.NonceChangeUnspecified)
		st.SetCode(c.Addr, c.Code, tracing.CodeChangeUnspecified)
		st.SetBalance(c.Addr, uint256.NewInt(c.Balance), tracing.BalanceChangeUnspecified)
		for _, sv := range c.Storage {
			st.SetState(c.Addr, common.BigToHash(new(big.Int).SetUint64(sv.Slot)), common.BigToHash(new(big.Int).SetUint64(sv.Val)))
		}
	}
	st.CreateAccount(wrapperAddr)
	st.SetNonce(wrapperAddr, 1, tracing.NonceChangeUnspecified)
	st.SetCode(wrapperAddr, wrapperCode(), tracing.CodeChangeUnspecified)
	st.SetBalance(wrapperAddr, uint256.NewInt(1_000_000_000), tracing.BalanceChangeUnspecified)
	st.SetBalance(originAddr, new(uint256.Int).Lsh(uint256.NewInt(1), 100), tracing.BalanceChangeUnspecified)
	w.rules = w.cfg.Rules(w.number, true, w.time)
	root, err := st.Commit(w.rules, 0)
	if err != nil {
		simcore.Harnessf("execsim C28: commit base state: %v", err)
	}
	if err := tdb.Commit(root, false); err != nil {
		simcore.Harnessf("execsim C28: commit base trie: %v", err)
	}
	w.root = root
	w.jd = core.NewJumpDestCache()
	w.pc = vm.NewPrecompileCache()
	return w
}

type outcome struct {
	ret     []byte
	err     string
	gasLeft uint64
	refund  uint64
	logs    string
	root    common.Hash
	addr    common.Address
	dbErr   string
}

func (o *outcome) String() string {
	return fmt.Sprintf("ret=%x err=%s gasLeft=%d refund=%d logs=%s root=%x addr=%x dberr=%s", o.ret, o.err, o.gasLeft, o.refund, o.logs, o.root, o.addr, o.dbErr)
}

func errClass(err error) string {
	if err == nil {
		return "ok"
	}
	return err.Error()
}

func (w *world28) rtConfig(m *Msg, st *state.StateDB, gas uint64) *vmrt.Config {
	rnd := common.Hash{31: 7}
	return &vmrt.Config{
		ChainConfig: w.cfg, Difficulty: new(big.Int), Origin: originAddr, Coinbase: coinbase28,
		BlockNumber: w.number, Time: w.time, GasLimit: gas, GasPrice: big.NewInt(1), Value: new(big.Int).SetUint64(m.Value),
		BaseFee: big.NewInt(1), BlobBaseFee: big.NewInt(1), Random: &rnd, State: st,
		GetHashFn: func(n uint64) common.Hash { return common.Hash{0: byte(n), 31: 1} },
	}
}

var executeAddr = common.BytesToAddress([]byte("contract")) // where runtime.Execute places the code

// exec runs one step on a fresh StateDB over the shared base state.
func (w *world28) exec(p *Plan28, s Step, sharedCaches bool) (o outcome) {
	m := &p.Msgs[s.Msg]
	st, err := state.New(w.root, w.sdb)
	if err != nil {
		simcore.Harnessf("execsim C28: open state: %v", err)
	}
	finish := func() {
		o.refund = st.GetRefund()
		var ls []string
		for _, l := range st.Logs() {
			ls = append(ls, fmt.Sprintf("{%x %x %x}", l.Address, l.Topics, l.Data))
		}
		o.logs = strings.Join(ls, ",")
		o.root = st.IntermediateRoot(w.rules)
		if e := st.Error(); e != nil {
			o.dbErr = e.Error()
		}
	}
	switch s.Flavor {
	case 0: // the real runtime entry points, private caches
		cfg := w.rtConfig(m, st, m.Gas)
		switch m.Kind {
		case 0:
			ret, left, err := vmrt.Call(m.To, m.Input, cfg)
			o.ret, o.gasLeft, o.err = ret, left, errClass(err)
		case 1:
			ret, addr, left, err := vmrt.Create(m.Input, cfg)
			o.ret, o.addr, o.gasLeft, o.err = ret, addr, left, errClass(err)
		default:
			// runtime.Execute does not report the gas left; the state root (origin pays nothing here) and
			// return data carry the comparison
			ret, _, err := vmrt.Execute(m.Code, m.Input, cfg)
			o.ret, o.err = ret, errClass(err)
		}
		finish()
		return o
	}
	// flavours 1 and 2: runtime.NewEnv, then the same call sequence as runtime.Call/Create/Execute
	gas := m.Gas
	if s.Flavor == 2 {
		gas = 1 << 60
	}
	cfg := w.rtConfig(m, st, gas)
	if s.Flavor == 2 {
		cfg.Value = new(big.Int)
	}
	evm := vmrt.NewEnv(cfg)
	if sharedCaches {
		evm.SetJumpDestCache(w.jd)
		evm.SetPrecompileCache(w.pc)
	}
	defer evm.Release()
	target := m.To
	if m.Kind == 2 {
		target = executeAddr
	}
	switch {
	case s.Flavor == 2:
		st.Prepare(w.rules, originAddr, coinbase28, &wrapperAddr, vm.ActivePrecompiles(w.rules), nil)
		if m.Kind == 2 {
			st.CreateAccount(executeAddr)
			st.SetCode(executeAddr, m.Code, tracing.CodeChangeUnspecified)
		}
		in := make([]byte, 128, 128+len(m.Input))
		binary.BigEndian.PutUint64(in[24:], uint64(s.Depth))
		copy(in[32+12:], target[:])
		binary.BigEndian.PutUint64(in[64+24:], m.Value)
		binary.BigEndian.PutUint64(in[96+24:], m.Gas)
		in = append(in, m.Input...)
		ret, _, err := evm.Call(originAddr, wrapperAddr, in, vm.NewGasBudget(gas, 0), new(uint256.Int))
		o.ret, o.err = ret, errClass(err)
	case m.Kind == 1:
		st.Prepare(w.rules, originAddr, coinbase28, nil, vm.ActivePrecompiles(w.rules), nil)
		limit := gas
		if w.rules.IsAmsterdam {
			limit = min(gas, params.MaxTxGas)
		}
		ret, addr, left, err := evm.Create(originAddr, m.Input, vm.NewGasBudget(limit, gas-limit), uint256.NewInt(m.Value))
		o.ret, o.addr, o.gasLeft, o.err = ret, addr, left.ExecutionGas, errClass(err)
	default:
		st.Prepare(w.rules, originAddr, coinbase28, &target, vm.ActivePrecompiles(w.rules), nil)
		if m.Kind == 2 {
			st.CreateAccount(executeAddr)
			st.SetCode(executeAddr, m.Code, tracing.CodeChangeUnspecified)
		}
		limit := gas
		if w.rules.IsAmsterdam {
			limit = min(gas, params.MaxTxGas)
		}
		ret, left, err := evm.Call(originAddr, target, m.Input, vm.NewGasBudget(limit, gas-limit), uint256.NewInt(m.Value))
		o.ret, o.err = ret, errClass(err)
		if m.Kind == 0 {
			o.gasLeft = left.ExecutionGas
		}
	}
	finish()
	return o
}

// refKey: which reference a step is compared with.
func refFlavor(s Step) int {
	if s.Flavor == 2 {
		return 2
	}
	return 0
}

func sameOutcome(a, b *outcome) string {
	switch {
	case !bytes.Equal(a.ret, b.ret):
		return "return-data"
	case a.err != b.err:
		return "error-class"
	case a.gasLeft != b.gasLeft:
		return "gas-left"
	case a.refund != b.refund:
		return "refund"
	case a.logs != b.logs:
		return "logs"
	case a.root != b.root:
		return "state-diff"
	case a.addr != b.addr:
		return "created-address"
	case a.dbErr != b.dbErr:
		return "db-error"
	}
	return ""
}

func allZero(b []byte) bool {
	for _, c := range b {
		if c != 0 {
			return false
		}
	}
	return true
}

func run28(t *testing.T, pl any) *simcore.Result {
	p := pl.(*Plan28)
	res := simcore.NewResult()
	if p.Procs > 0 {
		old := runtime.GOMAXPROCS(p.Procs)
		defer runtime.GOMAXPROCS(old)
	}
	for _, l := range append([][]Step{p.Seq}, p.Actors...) {
		for _, s := range l {
			if s.Msg < 0 || s.Msg >= len(p.Msgs) || s.Flavor < 0 || s.Flavor > 2 || s.Depth < 0 || s.Depth > 700 {
				simcore.Harnessf("execsim C28: malformed step %+v", s)
			}
		}
	}
	w := newWorld28(p)
	lh := simcore.NewHash()

	// ---- phase A: references, each message alone, private caches, pools emptied (two GC cycles drop sync.Pool contents)
	type refT struct {
		have bool
		o    outcome
	}
	refs := make([][3]refT, len(p.Msgs))
	// Pools emptied once (two GC cycles drop sync.Pool contents); then every reference is computed twice, in
	// opposite orders: the first execution of the first pass really is a first use of the pools, and a reference that
	// is not reproducible when its predecessors change already contradicts the property.
	runtime.GC()
	runtime.GC()
	var order []Step
	need := func(s Step) {
		rf := refFlavor(s)
		if refs[s.Msg][rf].have {
			return
		}
		st := Step{Msg: s.Msg, Flavor: rf, Depth: 0}
		refs[s.Msg][rf] = refT{true, w.exec(p, st, false)}
		order = append(order, st)
	}
	for _, s := range p.Seq {
		need(s)
	}
	for _, l := range p.Actors {
		for _, s := range l {
			need(s)
		}
	}
	for i := len(order) - 1; i >= 0; i-- {
		st := order[i]
		o := w.exec(p, st, false)
		ref := &refs[st.Msg][st.Flavor].o
		if d := sameOutcome(&o, ref); d != "" {
			return res.Fail(&simcore.Violation{Oracle: "result-depends-on-history", Key: "result-depends-on-history:" + d,
				Msg: fmt.Sprintf("reference pass 2 (reverse order): message %d (kind %d) flavour %d alone with private caches differs from its first-pass result in %s\n got: %s\n ref: %s", st.Msg, p.Msgs[st.Msg].Kind, st.Flavor, d, trunc(o.String(), 700), trunc(ref.String(), 700))})
		}
	}
	for mi := range refs {
		for f := range refs[mi] {
			if !refs[mi][f].have {
				continue
			}
			o := &refs[mi][f].o
			lh = lh.U64(uint64(mi)).U64(uint64(f)).String(o.String())
			if o.dbErr != "" {
				simcore.Harnessf("execsim C28: reference execution of message %d hit a database error: %s", mi, o.dbErr)
			}
			if o.err == "ok" {
				res.Probes["ref-ok"]++
			} else {
				res.Probes["ref-failed"]++
			}
			if p.Msgs[mi].ZeroRet && f != 2 {
				res.Probes["unwritten-memory-probes"]++
				if o.err == "ok" && !allZero(o.ret) {
					return res.Fail(simcore.Violf("unwritten-memory-not-zero", "message %d (reference execution, flavour %d) returned memory it never wrote and it is not zero: %x", mi, f, o.ret))
				}
			}
		}
	}
	check := func(phase string, s Step, o *outcome) *simcore.Violation {
		ref := &refs[s.Msg][refFlavor(s)].o
		if p.Msgs[s.Msg].ZeroRet && s.Flavor != 2 && o.err == "ok" && !allZero(o.ret) {
			return simcore.Violf("unwritten-memory-not-zero", "%s: message %d (flavour %d) returned memory it never wrote and it is not zero: %x", phase, s.Msg, s.Flavor, o.ret)
		}
		if d := sameOutcome(o, ref); d != "" {
			return &simcore.Violation{Oracle: "result-depends-on-history", Key: "result-depends-on-history:" + d,
				Msg: fmt.Sprintf("%s: message %d (kind %d) flavour %d depth %d differs from its reference in %s\n got: %s\n ref: %s", phase, s.Msg, p.Msgs[s.Msg].Kind, s.Flavor, s.Depth, d, trunc(o.String(), 700), trunc(ref.String(), 700))}
		}
		return nil
	}

	// ---- phase B1: one goroutine, planned order, warm shared caches
	for i, s := range p.Seq {
		o := w.exec(p, s, true)
		if v := check(fmt.Sprintf("sequential step %d", i), s, &o); v != nil {
			return res.Fail(v)
		}
		res.Probes[fmt.Sprintf("flavor-%d", s.Flavor)]++
		if s.Depth > 100 {
			res.Probes["depth>100"]++
		}
	}

	// ---- phase B2: all actors at once
	if len(p.Actors) > 0 {
		outs := make([][]outcome, len(p.Actors))
		var wg sync.WaitGroup
		maxLen := 0
		for _, l := range p.Actors {
			maxLen = max(maxLen, len(l))
		}
		bar := newBarrier(len(p.Actors))
		for ai := range p.Actors {
			outs[ai] = make([]outcome, len(p.Actors[ai]))
			wg.Add(1)
			go func(ai int) {
				defer wg.Done()
				for i := 0; i < maxLen; i++ {
					if p.Barrier {
						bar.wait()
					}
					if i < len(p.Actors[ai]) {
						outs[ai][i] = w.exec(p, p.Actors[ai][i], true)
					}
				}
			}(ai)
		}
		wg.Wait()
		for ai := range p.Actors {
			for i, s := range p.Actors[ai] {
				if v := check(fmt.Sprintf("actor %d step %d (of %d actors)", ai, i, len(p.Actors)), s, &outs[ai][i]); v != nil {
					return res.Fail(v)
				}
				res.Probes[fmt.Sprintf("flavor-%d", s.Flavor)]++
				if s.Depth > 100 {
					res.Probes["depth>100"]++
				}
			}
		}
		res.Probes["concurrent-executions"] += len(p.Actors) * maxLen
	}
	res.NonTrivial = len(p.Actors) >= 2 && len(p.Seq) > 0
	res.Events = int(w.kv.Reads.Load())
	res.StateFP = uint64(lh)
	res.SchedFP = uint64(simcore.NewHash().U64(uint64(len(p.Actors))).U64(uint64(p.Procs)).U64(uint64(len(p.Seq))))
	res.LogHash = uint64(lh)
	return res
}

// barrier: reusable rendezvous of n goroutines (harness code).
type barrier struct {
	mu    sync.Mutex
	cond  *sync.Cond
	n     int
	count int
	gen   int
}

func newBarrier(n int) *barrier {
	b := &barrier{n: n}
	b.cond = sync.NewCond(&b.mu)
	return b
}

func (b *barrier) wait() {
	b.mu.Lock()
	gen := b.gen
	b.count++
	if b.count == b.n {
		b.count = 0
		b.gen++
		b.cond.Broadcast()
	} else {
		for gen == b.gen {
			b.cond.Wait()
		}
	}
	b.mu.Unlock()
}
