package execsim

import (
	"encoding/binary"
	"fmt"

	"github.com/ethereum/go-ethereum/common"
	"github.com/ethereum/go-ethereum/crypto"
	"github.com/ethereum/go-ethereum/params"

	"verifsim/simcore"
)

// ---- address universe (all derived from fixed strings; harness-side only)

func derivedAddr(kind string, i int) common.Address {
	return common.BytesToAddress(crypto.Keccak256([]byte(fmt.Sprintf("execsim %s %d", kind, i)))[12:])
}

func contractAddr(i int) common.Address { return derivedAddr("contract", i) }
func freshAddr(i int) common.Address    { return derivedAddr("fresh", i) }

var senderKeys = func() (ks []*keyT) {
	for i := 0; i < 8; i++ {
		k, err := crypto.ToECDSA(crypto.Keccak256([]byte(fmt.Sprintf("execsim sender key %d", i))))
		if err != nil {
			panic(err)
		}
		ks = append(ks, &keyT{k, crypto.PubkeyToAddress(k.PublicKey)})
	}
	return
}()

func senderAddr(i int) common.Address { return senderKeys[i].addr }

// progEnv is what a generated program may refer to.
type progEnv struct {
	lower     []common.Address // contracts that may be called with all gas (index below the program's own: call graph stays a DAG)
	all       []common.Address // all contracts (called with a small fixed gas, may recurse)
	eoas      []common.Address // funded senders
	fresh     []common.Address // accounts absent from genesis
	system    bool             // system contracts present (Prague+)
	heavy     bool             // add stack/memory heavy snippets (C28)
	nslots    int              // shared storage slots 0..nslots-1
	mcopy     bool             // Cancun+ opcodes allowed (MCOPY, TLOAD/TSTORE)
	selfIdx   int
	blockhash bool // BLOCKHASH of recent ancestors allowed (generation needs a header source)
}

func (e *progEnv) anyAddr(r *simcore.Rand) common.Address {
	switch r.Pick(4, 3, 2, 2, 1) {
	case 0:
		if len(e.all) > 0 {
			return e.all[r.Intn(len(e.all))]
		}
	case 1:
		if len(e.eoas) > 0 {
			return e.eoas[r.Intn(len(e.eoas))]
		}
	case 2:
		if len(e.fresh) > 0 {
			return e.fresh[r.Intn(len(e.fresh))]
		}
	case 3:
		return common.BytesToAddress([]byte{byte(r.Range(1, 9))})
	case 4:
		if e.system {
			// (the beacon roots contract is left out: core.GenerateChain applies its system call after the
			// transactions, the block processor before them, so its storage differs mid-block by construction)
			return []common.Address{params.HistoryStorageAddress, params.WithdrawalQueueAddress, params.ConsolidationQueueAddress}[r.Intn(3)]
		}
	}
	if len(e.all) > 0 {
		return e.all[r.Intn(len(e.all))]
	}
	return common.BytesToAddress([]byte{4})
}

// accumulate: stack top -> mem[0] += top
func (a *asm) acc() *asm { return a.push(0).op(opMLOAD, opADD).push(0).op(opMSTORE) }

// tiny runtime used by created children: optionally self-destructs when called.
func childRuntime(r *simcore.Rand, e *progEnv) []byte {
	a := newAsm()
	switch r.Pick(3, 3, 2) {
	case 0: // SSTORE(0, CALLVALUE+1) ; STOP
		a.op(opCALLVALUE).push(1).op(opADD).push(0).op(opSSTORE, opSTOP)
	case 1: // SELFDESTRUCT(beneficiary)
		a.push(uint64(r.Range(1, 9))).push(uint64(r.Intn(2))).op(opSSTORE)
		a.pushAddr(e.anyAddr(r)).op(opSELFDESTRUCT)
	default: // return SLOAD(0)
		a.push(0).op(opSLOAD).push(0).op(opMSTORE).push(32).push(0).op(opRETURN)
	}
	return a.bytes()
}

// genInit produces init code of one of several behaviours.
func genInit(r *simcore.Rand, e *progEnv) []byte {
	switch r.Pick(5, 3, 2, 1, 1, 2) {
	case 0: // deploy a child runtime, with a storage write in the constructor
		a := newAsm()
		if r.Bool(0.5) {
			a.push(uint64(r.Range(1, 200))).push(uint64(r.Intn(3))).op(opSSTORE)
		}
		return append(a.bytes(), fixDeployer(len(a.b), childRuntime(r, e))...)
	case 1: // write storage, then self-destruct inside the constructor (created and destroyed in one tx)
		a := newAsm()
		a.push(uint64(r.Range(1, 200))).push(uint64(r.Intn(3))).op(opSSTORE)
		a.pushAddr(e.anyAddr(r)).op(opSELFDESTRUCT)
		return a.bytes()
	case 2: // revert
		a := newAsm()
		a.push(7).push(1).op(opSSTORE).push(0).push(0).op(opREVERT)
		return a.bytes()
	case 3: // empty runtime
		return newAsm().push(0).push(0).op(opRETURN).bytes()
	case 4: // invalid opcode
		return newAsm().push(1).push(1).op(opSSTORE, opINVALID).bytes()
	default: // constructor touches other state, then deploys
		a := newAsm()
		a.pushAddr(e.anyAddr(r)).op(opBALANCE).push(2).op(opSSTORE)
		return append(a.bytes(), fixDeployer(len(a.b), childRuntime(r, e))...)
	}
}

// fixDeployer is deployer() relocated behind a prefix of the given length.
func fixDeployer(prefixLen int, runtime []byte) []byte {
	n := len(runtime)
	const dl = 3 + 3 + 2 + 1 + 3 + 2 + 1
	off := prefixLen + dl
	a := newAsm()
	a.op(opPUSH2, byte(n>>8), byte(n)).op(opPUSH2, byte(off>>8), byte(off)).push(0).op(opCODECOPY)
	a.op(opPUSH2, byte(n>>8), byte(n)).push(0).op(opRETURN)
	if len(a.b) != dl {
		panic("asm: deployer prefix")
	}
	return append(a.bytes(), runtime...)
}

// emitCall emits one CALL-family instruction; leaves the success flag accumulated in mem[0].
// args region: mem[inOff, inOff+inLen); output copied to mem[64,96).
func emitCall(a *asm, kind byte, gasConst uint64, to common.Address, value uint64, inOff, inLen uint64) {
	a.push(32).push(64).push(inLen).push(inOff)
	if kind == opCALL || kind == opCALLCODE {
		a.push(value)
	}
	a.pushAddr(to)
	if gasConst == 0 {
		a.op(opGAS)
	} else {
		a.push(gasConst)
	}
	a.op(kind)
	a.acc()
}

// genRuntime produces contract runtime code from stack-neutral snippets working on an
// accumulator in mem[0,32). The program ends with RETURN(0,32), STOP or a conditional failure.
func genRuntime(r *simcore.Rand, e *progEnv) []byte {
	a := newAsm()
	n := r.Range(2, 9)
	slot := func() uint64 { return uint64(r.Intn(e.nslots)) }
	if e.blockhash && r.Bool(0.3) {
		a.push(uint64(r.Range(1, 4))).op(opNUMBER, opSUB, opBLOCKHASH).acc()
	}
	for i := 0; i < n; i++ {
		switch r.Pick(14, 14, 6, 5, 12, 7, 5, 6, 3, 3, 3, 2, 4, 3, 2) {
		case 0: // SLOAD into accumulator
			a.push(slot()).op(opSLOAD).acc()
		case 1: // SSTORE of a value derived from the accumulator / calldata
			switch r.Pick(4, 3, 2, 2) {
			case 0:
				a.push(0).op(opMLOAD).push(uint64(r.Range(1, 50))).op(opADD)
			case 1:
				a.push(0).op(opCALLDATALOAD).push(0).op(opMLOAD, opADD).push(3).op(opAND) // small range: values often return to the original
			case 2:
				a.push(0) // delete
			default:
				a.push(uint64(r.Range(0, 3)))
			}
			a.push(slot()).op(opSSTORE)
		case 2: // BALANCE of some account
			a.pushAddr(e.anyAddr(r)).op(opBALANCE).acc()
		case 3: // EXTCODESIZE / EXTCODEHASH / EXTCODECOPY
			switch r.Intn(3) {
			case 0:
				a.pushAddr(e.anyAddr(r)).op(opEXTCODESIZE).acc()
			case 1:
				a.pushAddr(e.anyAddr(r)).op(opEXTCODEHASH).acc()
			default:
				a.push(uint64(r.Range(0, 32))).push(uint64(r.Intn(8))).push(32).pushAddr(e.anyAddr(r)).op(opEXTCODECOPY)
				a.push(32).op(opMLOAD).acc()
			}
		case 4: // call another contract
			kind := []byte{opCALL, opCALL, opCALL, opSTATICCALL, opDELEGATECALL, opCALLCODE}[r.Intn(6)]
			var to common.Address
			var gas uint64
			if len(e.lower) > 0 && r.Bool(0.7) {
				to = e.lower[r.Intn(len(e.lower))]
			} else if len(e.all) > 0 {
				to = e.all[r.Intn(len(e.all))]
				gas = uint64(r.Range(3, 60)) * 1000
				if e.heavy {
					// C28 nests messages under up to 600 wrapper frames: keep the program's own recursion far
					// below 1024 - 600 frames (>= ~130 gas per frame => < 125 frames)
					gas = uint64(r.Range(3, 16)) * 1000
				}
			} else {
				to = e.anyAddr(r)
			}
			var value uint64
			if r.Bool(0.35) {
				value = uint64(r.Range(1, 5))
			}
			emitCall(a, kind, gas, to, value, 0, 32)
			a.push(64).op(opMLOAD).acc()
		case 5: // value transfer to an EOA / fresh / precompile account
			var to common.Address
			switch r.Intn(3) {
			case 0:
				if len(e.eoas) > 0 {
					to = e.eoas[r.Intn(len(e.eoas))]
					break
				}
				fallthrough
			case 1:
				if len(e.fresh) > 0 {
					to = e.fresh[r.Intn(len(e.fresh))]
					break
				}
				fallthrough
			default:
				to = common.BytesToAddress([]byte{byte(r.Range(1, 9))})
			}
			emitCall(a, opCALL, 0, to, uint64(r.Range(0, 4)), 0, uint64(r.Intn(2))*32)
		case 6: // CREATE / CREATE2 and optionally call the child in the same tx
			init := genInit(r, e)
			a.mstoreBytes(128, init)
			if r.Bool(0.5) {
				a.push(uint64(len(init))).push(128).push(uint64(r.Intn(2))).op(opCREATE)
			} else {
				// salt: constant or a storage slot (repeated calls collide)
				if r.Bool(0.5) {
					a.push(uint64(r.Intn(3)))
				} else {
					a.push(slot()).op(opSLOAD)
				}
				a.push(uint64(len(init))).push(128).push(uint64(r.Intn(2))).op(opCREATE2)
			}
			// stack: child address
			if r.Bool(0.6) {
				a.op(opDUP1)
				// CALL(gas, child, value, 0, 0, 64, 32)
				a.push(32).push(64).push(0).push(0).push(uint64(r.Intn(2)))
				a.op(opDUP1 + 5) // child address
				a.op(opGAS, opCALL, opPOP)
				a.op(opPOP)
			}
			if r.Bool(0.4) {
				a.push(slot()).op(opSSTORE)
			} else {
				a.acc()
			}
		case 7: // LOG
			nt := r.Intn(3)
			for t := 0; t < nt; t++ {
				if r.Bool(0.5) {
					a.push(uint64(r.Range(1, 1000)))
				} else {
					a.push(0).op(opMLOAD)
				}
			}
			a.push(32).push(0).op(byte(opLOG0 + nt))
		case 8: // conditional REVERT on accumulator bits
			l := a.newLabel()
			a.push(0).op(opMLOAD).push(uint64(r.Range(1, 7))).op(opAND).pushLabel(l).op(opJUMPI)
			a.push(32).push(0).op(opREVERT)
			a.mark(l)
		case 9: // conditional INVALID (burns all gas)
			l := a.newLabel()
			a.push(0).op(opMLOAD).push(uint64(r.Range(1, 3))).op(opAND).pushLabel(l).op(opJUMPI)
			a.op(opINVALID)
			a.mark(l)
		case 10: // conditional SELFDESTRUCT
			l := a.newLabel()
			a.push(0).op(opMLOAD).push(1).op(opAND).pushLabel(l).op(opJUMPI)
			a.pushAddr(e.anyAddr(r)).op(opSELFDESTRUCT)
			a.mark(l)
		case 11: // transient storage
			if e.mcopy {
				a.push(0).op(opMLOAD).push(slot()).op(opTSTORE)
				a.push(slot()).op(opTLOAD).acc()
			}
		case 12: // system contract interaction
			if e.system {
				emitSystemCall(a, r)
			}
		case 14: // gas-heavy loop: KECCAK over a scratch word, optionally an SSTORE per iteration
			n := uint64(r.Range(50, 2000))
			if r.Bool(0.25) {
				n = uint64(r.Range(2000, 40000))
			}
			emitBurnLoop(a, n, r.Bool(0.3), slot())
		case 13: // context values
			k := r.Intn(5)
			if e.blockhash && r.Bool(0.5) {
				k = 5
			}
			switch k {
			case 5:
				a.push(uint64(r.Range(1, 4))).op(opNUMBER, opSUB, opBLOCKHASH).acc()
			case 0:
				a.op(opSELFBALANCE).acc()
			case 1:
				a.op(opCALLVALUE).acc()
			case 2:
				a.op(opCALLER).op(opBALANCE).acc()
			case 3:
				a.op(opCOINBASE).op(opBALANCE).acc()
			default:
				a.op(opORIGIN).op(opEXTCODESIZE).acc()
			}
		}
		if e.heavy && r.Bool(0.5) {
			emitHeavy(a, r, e)
		}
	}
	switch r.Pick(6, 2, 1) {
	case 0:
		a.push(32).push(0).op(opRETURN)
	case 1:
		a.op(opSTOP)
	default:
		a.push(64).push(0).op(opRETURN)
	}
	return a.bytes()
}

// emitSystemCall calls one of the Prague system contracts the way a user would.
func emitSystemCall(a *asm, r *simcore.Rand) {
	switch r.Pick(3, 2, 2, 2) {
	case 0: // EIP-7002 withdrawal request: 48 byte pubkey + 8 byte amount, fee paid as value
		data := make([]byte, 56)
		copy(data, r.Bytes(48))
		binary.BigEndian.PutUint64(data[48:], uint64(r.Range(0, 1000)))
		a.mstoreBytes(256, data)
		emitCall(a, opCALL, 0, params.WithdrawalQueueAddress, uint64(r.Range(0, 3)), 256, 56)
	case 1: // EIP-7251 consolidation request: 2 x 48 byte pubkeys
		a.mstoreBytes(256, r.Bytes(96))
		emitCall(a, opCALL, 0, params.ConsolidationQueueAddress, uint64(r.Range(0, 3)), 256, 96)
	case 2: // EIP-4788 beacon root lookup for the previous block's timestamp (block time is 10 s in GenerateChain)
		a.push(10).op(opTIMESTAMP, opSUB).push(256).op(opMSTORE)
		emitCall(a, opSTATICCALL, 0, params.BeaconRootsAddress, 0, 256, 32)
		a.push(64).op(opMLOAD).acc()
	default: // EIP-2935 parent hash lookup (NUMBER-1: written at index 0)
		a.push(1).op(opNUMBER, opSUB).push(256).op(opMSTORE)
		emitCall(a, opSTATICCALL, 0, params.HistoryStorageAddress, 0, 256, 32)
		a.push(64).op(opMLOAD).acc()
	}
}

// emitHeavy: stack and memory heavy snippets (C28): deep stacks, sparse big memory,
// reads of memory the program never wrote, MCOPY/RETURNDATACOPY, precompile calls, jump tables.
func emitHeavy(a *asm, r *simcore.Rand, e *progEnv) {
	switch r.Pick(4, 4, 4, 3, 4, 3, 3, 3, 4) {
	case 7: // fill a large region above 16 KiB with non-zero data
		emitBigFlood(a, r, e)
	case 8: // read / hash / copy / log / pass on memory above 16 KiB that this frame (usually) never wrote
		emitBigRead(a, r, e)
	case 0: // push many values, fold some, pop the rest
		n := r.Range(20, 900)
		for i := 0; i < n; i++ {
			switch r.Intn(4) {
			case 0:
				a.op(opGAS)
			case 1:
				a.op(opPC)
			case 2:
				a.push(r.Uint64() >> uint(r.Intn(64)))
			default:
				a.op(opMSIZE)
			}
		}
		for i := 0; i < n; i++ {
			if i%7 == 3 && i+1 < n {
				a.op(opXOR)
			} else {
				a.op(opPOP)
			}
		}
	case 1: // read memory never written (must be zero), fold into the accumulator and into the return area
		off := uint64(r.Range(96, 20000))
		a.push(off).op(opMLOAD).acc()
		a.push(off + uint64(r.Range(1, 64))).op(opMLOAD).push(32).op(opMSTORE)
	case 2: // sparse big store then read around it
		off := uint64(r.Range(200, 40000))
		a.push(r.Uint64() | 1).push(off).op(opMSTORE)
		a.push(off - uint64(r.Range(1, 31))).op(opMLOAD).acc()
		a.push(off + uint64(r.Range(1, 31))).op(opMLOAD).acc()
	case 3: // MCOPY overlapping
		if e.mcopy {
			a.push(uint64(r.Range(1, 300))).push(uint64(r.Range(0, 200))).push(uint64(r.Range(32, 400))).op(opMCOPY)
			a.push(uint64(r.Range(32, 400))).op(opMLOAD).acc()
		}
	case 4: // precompile call with one of a few repeated inputs or a fresh one
		pre := []byte{1, 2, 3, 4, 5, 6, 7, 9}[r.Intn(8)]
		var in []byte
		if r.Bool(0.6) {
			in = fixedPrecompileInput(pre, r.Intn(3))
		} else {
			in = r.Bytes(r.Range(0, 200))
		}
		if len(in) > 0 {
			a.mstoreBytes(512, in)
		}
		emitCall(a, opSTATICCALL, 0, common.BytesToAddress([]byte{pre}), 0, 512, uint64(len(in)))
		a.push(64).op(opMLOAD).acc()
		// returndatacopy of whatever came back, within bounds
		a.op(opRETURNDATASIZE).push(0).push(700).op(opRETURNDATACOPY)
		a.push(700).op(opMLOAD).acc()
	case 5: // jump table: computed jump into one of several destinations, one of which may be push data
		k := r.Range(2, 4)
		ls := make([]int, k)
		end := a.newLabel()
		for i := range ls {
			ls[i] = a.newLabel()
		}
		// index = acc & 3 (mod k by comparison chain)
		for i := 0; i < k; i++ {
			a.push(0).op(opMLOAD).push(3).op(opAND).push(uint64(i)).op(opEQ).pushLabel(ls[i]).op(opJUMPI)
		}
		a.pushLabel(end).op(opJUMP)
		for i := 0; i < k; i++ {
			a.mark(ls[i])
			// push data that contains JUMPDEST bytes
			a.pushBytes([]byte{opJUMPDEST, opJUMPDEST, byte(i), opJUMPDEST}).acc()
			a.pushLabel(end).op(opJUMP)
		}
		a.mark(end)
	case 6: // jump into push data (invalid destination) guarded by a condition
		l := a.newLabel()
		a.push(0).op(opMLOAD).push(uint64(r.Range(1, 15))).op(opAND).pushLabel(l).op(opJUMPI)
		// target = pc of the 0x5b inside the following PUSH2 immediate
		here := len(a.b)
		// layout: PUSH2 <target> JUMP PUSH2 0x5b5b POP
		target := here + 3 + 1 + 1
		a.op(opPUSH2, byte(target>>8), byte(target)).op(opJUMP)
		a.op(opPUSH2, opJUMPDEST, opJUMPDEST).op(opPOP)
		a.mark(l)
	}
}

func fixedPrecompileInput(pre byte, k int) []byte {
	seed := crypto.Keccak256([]byte{pre, byte(k)})
	switch pre {
	case 1: // ecrecover: hash, v, r, s
		in := make([]byte, 128)
		copy(in, seed)
		in[63] = 27 + byte(k&1)
		copy(in[64:], crypto.Keccak256(seed))
		copy(in[96:], crypto.Keccak256(seed, seed))
		in[64] &= 0x7f
		in[96] &= 0x3f
		return in
	case 5: // modexp: small operands
		in := make([]byte, 96+3)
		in[31], in[63], in[95] = 1, 1, 1
		in[96], in[97], in[98] = seed[0]|1, seed[1], seed[2]|3
		return in
	case 6, 7: // bn256 add / mul on the generator
		in := make([]byte, 128)
		in[31], in[63] = 1, 2
		if pre == 6 {
			in[95], in[127] = 1, 2
		} else {
			in[95] = seed[0]
			in = in[:96]
		}
		return in
	case 9: // blake2f
		in := make([]byte, 213)
		in[3] = byte(k + 1)
		copy(in[4:], seed)
		in[212] = 1
		return in
	default: // variants share a 32 byte prefix and differ in the tail
		base := crypto.Keccak256([]byte("same input for sha256, ripemd160 and identity"))
		return append(append([]byte{}, base...), seed[:k*7]...)
	}
}

// emitBurnLoop: n iterations of KECCAK256 over mem[96:128) (the accumulator in mem[0:32) is left alone).
func emitBurnLoop(a *asm, n uint64, sstore bool, slot uint64) {
	loop := a.newLabel()
	a.push(n)
	a.mark(loop)
	a.op(opDUP1).push(96).op(opMSTORE).push(32).push(96).op(opKECCAK, opPOP)
	if sstore {
		a.op(opDUP1).push(slot).op(opSSTORE)
	}
	a.push(1).op(opSWAP1, opSUB, opDUP1).pushLabel(loop).op(opJUMPI)
	a.op(opPOP)
}

// Large-memory region shared by writers and readers: buffers above 16 KiB take a different path
// through the memory pool than small ones.
const bigBase = 16384

func nonZeroWord(r *simcore.Rand) []byte {
	w := r.Bytes(32)
	for i := range w {
		w[i] |= 1
	}
	return w
}

// emitBigFlood fills [base, base + 32<<k) with a non-zero pattern (one MSTORE, then doubling MCOPYs).
func emitBigFlood(a *asm, r *simcore.Rand, e *progEnv) {
	base := uint64(bigBase + 32*r.Intn(64))
	a.pushBytes(nonZeroWord(r)).push(base).op(opMSTORE)
	k := r.Range(4, 13) // 512 B .. 256 KiB
	if !e.mcopy {
		for i := 1; i <= k; i++ {
			a.pushBytes(nonZeroWord(r)).push(base + uint64(32)<<uint(i)).op(opMSTORE)
		}
		return
	}
	l := uint64(32)
	for i := 0; i < k; i++ {
		a.push(l).push(base).push(base + l).op(opMCOPY)
		l *= 2
	}
}

func bigOffset(r *simcore.Rand) uint64 {
	return bigBase + uint64(r.Intn(1<<uint(r.Range(9, 17))))
}

// emitBigRead consumes memory above 16 KiB through one of several instructions and folds what
// it saw into the accumulator (or into a log / a call input).
func emitBigRead(a *asm, r *simcore.Rand, e *progEnv) {
	off := bigOffset(r)
	n := uint64(32 * r.Range(1, 4))
	switch r.Pick(3, 3, 2, 2, 2) {
	case 0:
		a.push(off).op(opMLOAD).acc()
	case 1:
		a.push(n).push(off).op(opKECCAK).acc()
	case 2:
		if e.mcopy {
			a.push(32).push(off).push(32).op(opMCOPY)
			a.push(32).op(opMLOAD).acc()
		} else {
			a.push(off).op(opMLOAD).acc()
		}
	case 3:
		a.push(n).push(off).op(opLOG0)
	default: // identity precompile gets the region as input, its output lands in mem[64:96)
		emitCall(a, opSTATICCALL, 0, common.BytesToAddress([]byte{4}), 0, off, n)
		a.push(64).op(opMLOAD).acc()
	}
}
