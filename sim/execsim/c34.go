package execsim

import (
	"context"
	"encoding/json"
	"fmt"
	"sort"
	"testing"

	"github.com/ethereum/go-ethereum/common"
	"github.com/ethereum/go-ethereum/core"
	"github.com/ethereum/go-ethereum/core/rawdb"
	"github.com/ethereum/go-ethereum/core/stateless"
	"github.com/ethereum/go-ethereum/core/types"
	"github.com/ethereum/go-ethereum/core/vm"
	"github.com/ethereum/go-ethereum/crypto"

	"verifsim/simcore"
	"verifsim/simdisk"
)

// WFault removes one element of the witness collected for a block.
type WFault struct {
	Block int    `json:"block"`
	Kind  int    `json:"kind"` // 0 trie node, 1 code blob, 2 header (never the parent header, which carries the pre-state root)
	Sel   uint32 `json:"sel"`  // index into the sorted element list (mod length)
}

type Plan34 struct {
	World      *World   `json:"world"`
	Scheme     string   `json:"scheme"`
	CleanMB    int      `json:"clean_mb"`
	SnapMB     int      `json:"snap_mb"`
	NoPrefetch bool     `json:"no_prefetch"`
	Faults     []WFault `json:"faults"`
}

func gen34(r *simcore.Rand, tier string) any {
	p := &Plan34{}
	p.World = genWorld(r, worldOpts{forks: []string{"cancun", "prague", "osaka", "amsterdam", "amsterdam"}, maxBlocks: 4, maxTxs: 10, maxContr: 6, lowGasProb: 0.1, blockhash: true})
	p.Scheme = []string{rawdb.HashScheme, rawdb.PathScheme}[r.Intn(2)]
	p.CleanMB = []int{0, 1, 16}[r.Intn(3)]
	p.SnapMB = []int{0, 1, 16}[r.Intn(3)]
	p.NoPrefetch = r.Bool(0.3)
	nf := 6
	if tier == "thorough" {
		nf = 16
	}
	for bi := range p.World.Blocks {
		for k := 0; k < nf; k++ {
			p.Faults = append(p.Faults, WFault{Block: bi, Kind: r.Pick(6, 2, 1), Sel: uint32(r.Uint64())})
		}
	}
	return p
}

func decode34(b []byte) (any, error) {
	p := &Plan34{}
	err := json.Unmarshal(b, p)
	if err == nil && p.World == nil {
		err = fmt.Errorf("plan without world")
	}
	return p, err
}

func clone34(p *Plan34) *Plan34 {
	b, _ := json.Marshal(p)
	q := &Plan34{}
	json.Unmarshal(b, q)
	return q
}

func shrink34(pl any) []any {
	p := pl.(*Plan34)
	var out []any
	for _, fs := range simcore.ShrinkSlice(p.Faults) {
		q := clone34(p)
		q.Faults = fs
		out = append(out, q)
	}
	out = append(out, shrinkWorld(p.World, func(w *World) any {
		q := clone34(p)
		q.World = w
		// drop faults of blocks that no longer exist
		var fs []WFault
		for _, f := range q.Faults {
			if f.Block < len(w.Blocks) {
				fs = append(fs, f)
			}
		}
		q.Faults = fs
		return q
	})...)
	if p.Scheme != rawdb.HashScheme || p.CleanMB != 16 || p.SnapMB != 16 || !p.NoPrefetch {
		q := clone34(p)
		q.Scheme, q.CleanMB, q.SnapMB, q.NoPrefetch = rawdb.HashScheme, 16, 16, true
		out = append(out, q)
	}
	return out
}

func sortedSet(m map[string]struct{}) []string {
	ks := make([]string, 0, len(m))
	for k := range m {
		ks = append(ks, k)
	}
	sort.Strings(ks)
	return ks
}

// statelessTask is the block handed to the stateless executor: the two roots it has to
// compute are blanked (as BlockChain's own self-validation does).
func statelessTask(blk *types.Block) *types.Block {
	h := blk.Header()
	h.Root = common.Hash{}
	h.ReceiptHash = common.Hash{}
	return types.NewBlockWithHeader(h).WithBody(*blk.Body())
}

// runStateless executes the block statelessly; a panic on the calling goroutine is reported as such.
func runStateless(cfg *core.Genesis, task *types.Block, w *stateless.Witness) (sroot, rroot common.Hash, err error, panicked any) {
	defer func() {
		if r := recover(); r != nil {
			panicked = r
		}
	}()
	sroot, rroot, err = core.ExecuteStateless(context.Background(), cfg.Config, vm.Config{}, task, w)
	return
}

func run34(t *testing.T, pl any) *simcore.Result {
	p := pl.(*Plan34)
	res := simcore.NewResult()
	lh := simcore.NewHash()
	sfp := simcore.NewHash().String(p.Scheme).U64(uint64(p.CleanMB)).U64(uint64(p.SnapMB)).String(p.World.Fork)

	b := newBuilder(p.World)
	kv := simdisk.NewSimKV(nil)
	ccfg := core.DefaultConfig().WithStateScheme(p.Scheme)
	ccfg.TrieCleanLimit, ccfg.SnapshotLimit, ccfg.TrieDirtyLimit = p.CleanMB, p.SnapMB, 16
	ccfg.NoPrefetch = p.NoPrefetch
	bc, err := core.NewBlockChain(rawdb.NewDatabase(kv), b.gspec, newEngine(), ccfg)
	if err != nil {
		simcore.Harnessf("execsim C34: new chain: %v", err)
	}
	defer bc.Stop()
	b.hdrChain = bc

	for bi := range p.World.Blocks {
		blk, _ := b.next(bi)
		lh = lh.Bytes(blk.Hash().Bytes())
		w, err := bc.InsertBlockWithoutSetHead(context.Background(), blk, true)
		if err != nil {
			simcore.Harnessf("execsim C34: chain rejects the generated block %d: %v", bi, err)
		}
		if w == nil {
			simcore.Harnessf("execsim C34: no witness returned for block %d", bi)
		}
		if _, err := bc.SetCanonical(blk); err != nil {
			simcore.Harnessf("execsim C34: SetCanonical block %d: %v", bi, err)
		}
		nodes, codes := sortedSet(w.State), sortedSet(w.Codes)
		res.Probes["witness-nodes"] += len(nodes)
		res.Probes["witness-codes"] += len(codes)
		res.Probes["witness-headers"] += len(w.Headers)
		if len(w.Headers) > 1 {
			res.Probes["witness-with-ancestor-headers"]++
		}
		res.Probes["txs"] += len(blk.Transactions())
		// the witness content depends on the prefetcher's schedule (it may add nodes the main
		// path never needed); only its size class goes into the state fingerprint
		sfp = sfp.Bytes(blk.Hash().Bytes())

		task := statelessTask(blk)
		sroot, rroot, err, pan := runStateless(b.gspec, task, w.Copy())
		if pan != nil {
			return res.Fail(simcore.Violf("stateless-fails-with-full-witness", "block %d (%s, %d txs): ExecuteStateless panicked on the complete witness: %v", bi, p.World.Fork, len(blk.Transactions()), pan))
		}
		if err != nil {
			return res.Fail(simcore.Violf("stateless-fails-with-full-witness", "block %d (%s, %d txs): ExecuteStateless on the complete witness (%d nodes, %d codes, %d headers) failed: %v", bi, p.World.Fork, len(blk.Transactions()), len(nodes), len(codes), len(w.Headers), errStr(err)))
		}
		if sroot != blk.Root() || rroot != blk.ReceiptHash() {
			return res.Fail(simcore.Violf("stateless-roots-differ", "block %d (%s, %d txs): stateless roots state=%x receipts=%x, header has state=%x receipts=%x (witness: %d nodes, %d codes, %d headers)", bi, p.World.Fork, len(blk.Transactions()), sroot, rroot, blk.Root(), blk.ReceiptHash(), len(nodes), len(codes), len(w.Headers)))
		}
		res.NonTrivial = res.NonTrivial || len(blk.Transactions()) > 0

		// ---- fault phase
		for _, f := range p.Faults {
			if f.Block != bi {
				continue
			}
			fw := w.Copy()
			var what string
			switch f.Kind {
			case 0:
				if len(nodes) == 0 {
					continue
				}
				n := nodes[int(f.Sel)%len(nodes)]
				delete(fw.State, n)
				what = fmt.Sprintf("trie node %x (%d bytes)", crypto.Keccak256([]byte(n)), len(n))
				res.Faults["remove-node"]++
			case 1:
				if len(codes) == 0 {
					continue
				}
				c := codes[int(f.Sel)%len(codes)]
				delete(fw.Codes, c)
				what = fmt.Sprintf("code %x (%d bytes)", crypto.Keccak256([]byte(c)), len(c))
				res.Faults["remove-code"]++
			default:
				if len(fw.Headers) < 2 {
					continue
				}
				i := 1 + int(f.Sel)%(len(fw.Headers)-1)
				what = fmt.Sprintf("ancestor header #%d (number %d)", i, fw.Headers[i].Number)
				fw.Headers = append(fw.Headers[:i:i], fw.Headers[i+1:]...)
				res.Faults["remove-header"]++
			}
			fs, fr, ferr, fpan := runStateless(b.gspec, task, fw)
			switch {
			case fpan != nil:
				res.Probes["fault-outcome-panic"]++
				lh = lh.String("P")
			case ferr != nil:
				res.Probes["fault-outcome-error"]++
				lh = lh.String("E")
			case fs == blk.Root() && fr == blk.ReceiptHash():
				res.Probes["fault-outcome-same-roots"]++
				lh = lh.String("S")
			default:
				// classify (never decides whether this is a violation): did the state database record an
				// error that ExecuteStateless did not surface, or did nothing at all notice the gap?
				kind := []string{"node", "code", "header"}[min(f.Kind, 2)]
				if kind == "header" {
					// Observation, not judged: the property speaks of trie nodes (and the witness' code blobs are
					// state too); an ancestor header is neither. core.GetHashFn gets nil from chain.GetHeader for
					// the missing ancestor and BLOCKHASH evaluates to zero, nothing records an error.
					res.Probes["header-removed-different-result"]++
					lh = lh.String("H")
					continue
				}
				class := "no-error-recorded-anywhere"
				note := ""
				func() {
					defer func() { recover() }()
					_, _, dbErr, _ := core.VerifExecsimStatelessDBError(context.Background(), b.gspec.Config, vm.Config{}, task, fw)
					if dbErr != nil {
						class = "statedb-error-not-surfaced"
						note = "; the StateDB had recorded: " + errStr(dbErr)
					}
				}()
				key := "incomplete-witness-different-result:" + kind + ":" + class
				if simcore.IsKnown(key) {
					res.KnownHit(key)
					res.Probes["fault-outcome-known-finding"]++
					lh = lh.String("K")
					continue
				}
				return res.Fail(&simcore.Violation{Oracle: "incomplete-witness-different-result", Key: key,
					Msg: fmt.Sprintf("block %d (%s, %d txs): with %s removed from the witness ExecuteStateless returned no error and state root %x, receipt root %x; the block has state root %x, receipt root %x%s", bi, p.World.Fork, len(blk.Transactions()), what, fs, fr, blk.Root(), blk.ReceiptHash(), note)})
			}
		}
	}
	res.Events = int(kv.Reads.Load() + kv.Writes.Load())
	res.StateFP = uint64(sfp)
	res.LogHash = uint64(lh)
	return res
}
