package execsim

import (
	"encoding/binary"

	"github.com/ethereum/go-ethereum/common"
)

// A tiny EVM assembler for the harness' program generator (harness code, not SUT).

const (
	opSTOP           = 0x00
	opADD            = 0x01
	opMUL            = 0x02
	opSUB            = 0x03
	opLT             = 0x10
	opGT             = 0x11
	opEQ             = 0x14
	opISZERO         = 0x15
	opAND            = 0x16
	opOR             = 0x17
	opXOR            = 0x18
	opNOT            = 0x19
	opSHL            = 0x1b
	opKECCAK         = 0x20
	opADDRESS        = 0x30
	opBALANCE        = 0x31
	opORIGIN         = 0x32
	opCALLER         = 0x33
	opCALLVALUE      = 0x34
	opCALLDATALOAD   = 0x35
	opCALLDATASIZE   = 0x36
	opCALLDATACOPY   = 0x37
	opCODESIZE       = 0x38
	opCODECOPY       = 0x39
	opEXTCODESIZE    = 0x3b
	opEXTCODECOPY    = 0x3c
	opRETURNDATASIZE = 0x3d
	opRETURNDATACOPY = 0x3e
	opEXTCODEHASH    = 0x3f
	opBLOCKHASH      = 0x40
	opCOINBASE       = 0x41
	opTIMESTAMP      = 0x42
	opNUMBER         = 0x43
	opSELFBALANCE    = 0x47
	opPOP            = 0x50
	opMLOAD          = 0x51
	opMSTORE         = 0x52
	opMSTORE8        = 0x53
	opSLOAD          = 0x54
	opSSTORE         = 0x55
	opJUMP           = 0x56
	opJUMPI          = 0x57
	opPC             = 0x58
	opMSIZE          = 0x59
	opGAS            = 0x5a
	opJUMPDEST       = 0x5b
	opTLOAD          = 0x5c
	opTSTORE         = 0x5d
	opMCOPY          = 0x5e
	opPUSH0          = 0x5f
	opPUSH1          = 0x60
	opPUSH2          = 0x61
	opDUP1           = 0x80
	opSWAP1          = 0x90
	opLOG0           = 0xa0
	opCREATE         = 0xf0
	opCALL           = 0xf1
	opCALLCODE       = 0xf2
	opRETURN         = 0xf3
	opDELEGATECALL   = 0xf4
	opCREATE2        = 0xf5
	opSTATICCALL     = 0xfa
	opREVERT         = 0xfd
	opINVALID        = 0xfe
	opSELFDESTRUCT   = 0xff
)

type asm struct {
	b      []byte
	labels map[int]int // label id -> pc
	fixups map[int]int // position of 2-byte placeholder -> label id
	next   int
}

func newAsm() *asm { return &asm{labels: map[int]int{}, fixups: map[int]int{}} }

func (a *asm) op(ops ...byte) *asm { a.b = append(a.b, ops...); return a }

// push emits the shortest PUSH for v (PUSH1 0 for zero, so that the code is valid on every fork).
func (a *asm) push(v uint64) *asm {
	var w [8]byte
	binary.BigEndian.PutUint64(w[:], v)
	i := 0
	for i < 7 && w[i] == 0 {
		i++
	}
	n := 8 - i
	a.b = append(a.b, byte(opPUSH1+n-1))
	a.b = append(a.b, w[i:]...)
	return a
}

// pushBytes emits PUSHn with the given immediate (1..32 bytes).
func (a *asm) pushBytes(d []byte) *asm {
	if len(d) == 0 || len(d) > 32 {
		panic("asm: bad push size")
	}
	a.b = append(a.b, byte(opPUSH1+len(d)-1))
	a.b = append(a.b, d...)
	return a
}

func (a *asm) pushAddr(addr common.Address) *asm { return a.pushBytes(addr[:]) }

func (a *asm) newLabel() int { a.next++; return a.next }

// pushLabel emits PUSH2 <pc of label> (resolved by bytes()).
func (a *asm) pushLabel(l int) *asm {
	a.b = append(a.b, opPUSH2)
	a.fixups[len(a.b)] = l
	a.b = append(a.b, 0, 0)
	return a
}

// mark places a JUMPDEST for label l here.
func (a *asm) mark(l int) *asm {
	a.labels[l] = len(a.b)
	a.b = append(a.b, opJUMPDEST)
	return a
}

func (a *asm) bytes() []byte {
	out := append([]byte{}, a.b...)
	for pos, l := range a.fixups {
		pc, ok := a.labels[l]
		if !ok {
			panic("asm: unresolved label")
		}
		binary.BigEndian.PutUint16(out[pos:], uint16(pc))
	}
	return out
}

// mstoreBytes writes data to memory at off using PUSH32/MSTORE words (the tail word is zero padded).
func (a *asm) mstoreBytes(off uint64, data []byte) *asm {
	for i := 0; i < len(data); i += 32 {
		var w [32]byte
		copy(w[:], data[i:])
		a.pushBytes(w[:]).push(off + uint64(i)).op(opMSTORE)
	}
	return a
}

// deployer wraps runtime code into init code that returns it.
func deployer(runtime []byte) []byte {
	a := newAsm()
	// PUSH len, PUSH off, PUSH 0, CODECOPY, PUSH len, PUSH 0, RETURN ; off is known after assembling the prefix
	// prefix length is fixed by using PUSH2 for both immediates.
	n := len(runtime)
	const prefix = 3 + 3 + 2 + 1 + 3 + 2 + 1
	a.op(opPUSH2, byte(n>>8), byte(n)).op(opPUSH2, 0, prefix).push(0).op(opCODECOPY)
	a.op(opPUSH2, byte(n>>8), byte(n)).push(0).op(opRETURN)
	if len(a.b) != prefix {
		panic("asm: deployer prefix")
	}
	return append(a.bytes(), runtime...)
}
