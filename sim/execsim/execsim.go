// Package execsim holds the checks about block and message execution:
// C33 (access-list driven parallel block execution agrees with sequential execution and
// mutated access lists are rejected), C34 (stateless re-execution from the collected
// witness) and C28 (EVM results do not depend on pooling, caches, nesting or concurrency).
package execsim

import (
	"github.com/ethereum/go-ethereum/core"

	"verifsim/simcore"
)

func init() {
	// process-wide lazily started worker pool of geth: force it before anything else
	core.SenderCacher()
}

func Checks() map[string]*simcore.Check {
	return map[string]*simcore.Check{
		"C28": {
			ID: "C28", Engine: "execsim", Level: "exploration",
			Rule: "case = fork (cancun..amsterdam) + base state of 3-7 generated contracts (stack/memory heavy snippets, unwritten-memory reads, MCOPY/RETURNDATACOPY, CREATE/CREATE2, precompile calls with repeated and fresh inputs, jump tables, jumps into push data) + corpus of 8-40 messages (call / create / ad-hoc code, incl. two init codes that differ only in whether pc 5 is a JUMPDEST or push data, and probes returning memory never written) + a planned single-goroutine order and 2-8 concurrent actors with 3-12 steps each; every step picks a flavour (vm/runtime.Call|Create|Execute; same sequence on runtime.NewEnv with shared jump-dest + precompile caches and arena release; nested under 0-600 wrapper frames). References: each message alone on a fresh StateDB with private caches after two GC cycles (empty pools). Non-trivial = >=2 concurrent actors and a non-empty sequential phase; distinct = distinct (reference results, actor count, GOMAXPROCS).",
			Assumptions: []string{
				"the reference is produced by the same EVM code, alone and first (pools emptied by two GC cycles, private caches); a defect that corrupts even a lone first execution is outside this check (unwritten-memory probes are checked against zero directly)",
				"wrapper nesting keeps total call depth below 1024 (generated programs recurse < 150 frames), the inner call gets a fixed gas amount, so depth may not legally change the inner result",
				"interleavings inside the interpreter are perturbed (goroutines meet at a barrier before each step, GOMAXPROCS 1..16 per run, race-detector build), not decided",
			},
			Components: simcore.Components{
				Real: []string{"vm.EVM / interpreter / stack arena / memory pool / Contract jump-dest analysis", "core/vm/runtime Call, Create, Execute, NewEnv", "core.NewJumpDestCache (shared, sharded LRU)", "vm.PrecompileCache (shared)", "state.StateDB over triedb hash scheme"},
				Stub: []string{"disk: simdisk.SimKV", "wrapper contract that nests the message under N call frames (harness-made bytecode)"},
			},
			Perturbed: []string{"goroutine interleaving of 2-8 EVMs sharing caches and sync.Pools (GOMAXPROCS 1/2/4/8/16 per run; checks.json gomaxprocs for the process start value)", "sync.Pool reuse pattern"},
			Runs:      map[string]int{"quick": 800, "thorough": 50000},
			Gen:       gen28, Decode: decode28, Run: run28, Shrink: shrink28,
			ProbeNames: []string{"flavor-0", "flavor-1", "flavor-2", "depth>100", "unwritten-memory-probes", "concurrent-executions", "ref-ok", "ref-failed"},
		},
		"C34": {
			ID: "C34", Engine: "execsim", Level: "fault_enumeration",
			Rule: "case = world (fork cancun/prague/osaka/amsterdam; 1-5 senders, 2-6 generated contracts touching shared slots, other accounts' balance/code, absent accounts, storage deletes, creates, self-destructs, BLOCKHASH of ancestors, system contracts) + 1-3 blocks of 0-12 transactions + chain knobs (hash/path scheme, cache sizes, prefetcher on/off) + per block a sample of witness elements to remove (trie node / code blob / ancestor header; thorough: larger sample). Each block is imported with InsertBlockWithoutSetHead(makeWitness=true); ExecuteStateless runs on the collected witness, then once per removal. Non-trivial = a block with >=1 transaction; distinct = distinct (fork, knobs, block hashes).",
			Assumptions: []string{
				"blocks come from core.GenerateChain; the importing chain's own full-state validation accepted the block before the witness is used",
				"the witness content may depend on the trie prefetcher's schedule (not decided); every oracle clause holds for any content",
				"a panic of ExecuteStateless on an incomplete witness counts as failing (the property only forbids success with different roots); it is counted, not reported",
				"removal of an ancestor header is executed but not judged (headers are not trie nodes): a different result is only counted (probe header-removed-different-result)",
				"the parent header is never removed: it carries the pre-state root and its absence is a malformed witness, not a missing element",
			},
			Components: simcore.Components{
				Real: []string{"core.BlockChain.InsertBlockWithoutSetHead/ProcessBlock with makeWitness", "state.StateDB witness collection + trie prefetcher", "stateless.Witness/MakeHashDB", "core.ExecuteStateless (StateProcessor + BlockValidator over the witness database)", "core.GenerateChain"},
				Stub: []string{"disk of the importing chain: simdisk.SimKV", "the witness with one element removed (the stateless side's missing-data fault)"},
			},
			Perturbed: []string{"trie prefetcher / subfetcher interleaving while the witness is collected (GOMAXPROCS from checks.json)"},
			Runs:      map[string]int{"quick": 3200, "thorough": 40000},
			Gen:       gen34, Decode: decode34, Run: run34, Shrink: shrink34,
			ProbeNames: []string{"witness-with-ancestor-headers", "fault-outcome-error", "fault-outcome-same-roots"},
		},
		"C33": {
			ID: "C33", Engine: "execsim", Level: "exploration",
			Rule: "case = Amsterdam-from-genesis world (1-5 funded senders, 2-7 generated contracts with shared storage slots, system contracts) + 1-2 blocks of 0-24 transactions built by core.GenerateChain (sequential execution = the true access list) + chain knobs (GOMAXPROCS 1..16 = worker count, hash/path scheme, clean/snapshot cache 0/1/16 MB) + 1-4 access-list mutations per block. Each true block is imported by a sequential-mode chain and by an access-list-driven chain; the real processors' results are compared field by field. Non-trivial = a block with >=2 transactions in which some balance, nonce or storage slot changes at two or more block-access indices (a later transaction reads what an earlier one wrote); distinct = distinct (knobs, rebuilt access list hashes).",
			Assumptions: []string{
				"blocks come from core.GenerateChain, i.e. the 'true' access list is the one geth's own sequential execution produced",
				"scheduling of the parallel workers, of the concurrent state-root goroutine and of the prefetcher is not decided by the plan (no seam inside the processor); it is perturbed by GOMAXPROCS 1..16 per run and by the race-detector build",
			},
			Components: simcore.Components{
				Real: []string{"core.BlockChain.InsertChain/ProcessBlock", "core.StateProcessor (sequential and processParallel)", "core.BlockValidator.ValidateBody/ValidateState", "state.NewBlockExecutionReader + ReaderWithBlockLevelAccessList", "StateDB.ApplyBlockAccessList", "bal.BlockAccessList.Validate/Lookup", "core.GenerateChain (block producer)", "triedb hash and path schemes", "beacon(ethash faker) header verification"},
				Stub: []string{"disk: simdisk.SimKV (memorydb with op log, no freezer)", "recording pass-through wrappers around Processor and Validator"},
			},
			Perturbed: []string{"interleaving of parallel transaction workers, root goroutine and prefetcher (GOMAXPROCS 1/2/3/4/8/16 set per run; process start value from checks.json gomaxprocs)", "map iteration order inside geth"},
			Runs:      map[string]int{"quick": 1600, "thorough": 30000},
			Gen:       gen33, Decode: decode33, Run: run33, Shrink: shrink33,
			ProbeNames: []string{"blocks-with-cross-tx-dependency", "failed-txs", "blocks-with-requests", "blocks-with-logs", "code-changes",
				"rejected-at-body:parallel", "rejected-at-process:parallel", "rejected-at-state:parallel", "rejected-at-state:sequential"},
		},
	}
}
