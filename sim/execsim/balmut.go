package execsim

import (
	"bytes"
	"sort"

	"github.com/ethereum/go-ethereum/common"
	"github.com/ethereum/go-ethereum/core/types/bal"
	"github.com/ethereum/go-ethereum/rlp"
	"github.com/holiman/uint256"
)

// Mirror of the EIP-7928 encoding (same RLP shape as bal.AccountAccess) so that the
// harness can edit an access list freely and hand the result back through RLP.

type mWrite struct {
	Idx uint64
	Val *uint256.Int
}
type mSlot struct {
	Slot    *uint256.Int
	Changes []mWrite
}
type mBal struct {
	Idx uint64
	Bal *uint256.Int
}
type mNonce struct {
	Idx   uint64
	Nonce uint64
}
type mCode struct {
	Idx  uint64
	Code []byte
}
type mAcct struct {
	Addr     common.Address
	Slots    []mSlot
	Reads    []*uint256.Int
	Balances []mBal
	Nonces   []mNonce
	Codes    []mCode
}

func balToMirror(l *bal.BlockAccessList) []mAcct {
	var buf bytes.Buffer
	if err := l.EncodeRLP(&buf); err != nil {
		panic(err)
	}
	var m []mAcct
	if err := rlp.DecodeBytes(buf.Bytes(), &m); err != nil {
		panic("execsim: mirror decode: " + err.Error())
	}
	return m
}

func mirrorToBal(m []mAcct) (*bal.BlockAccessList, []byte, error) {
	enc, err := rlp.EncodeToBytes(m)
	if err != nil {
		return nil, nil, err
	}
	var l bal.BlockAccessList
	if err := rlp.DecodeBytes(enc, &l); err != nil {
		return nil, enc, err
	}
	return &l, enc, nil
}

// Mut is one planned mutation of a block's true access list. A, B, C select the
// account / entry / auxiliary value (reduced modulo what is available).
type Mut struct {
	Block int    `json:"block"`
	Kind  int    `json:"kind"`
	A     uint32 `json:"a"`
	B     uint32 `json:"b"`
	C     uint32 `json:"c"`
}

var mutNames = []string{
	"drop-account", "add-account", "drop-slot-writes", "drop-read", "add-read", "alter-post-value",
	"alter-balance", "alter-nonce", "alter-code", "move-change", "duplicate-entry", "swap-accounts",
	"drop-change", "write-to-read", "read-to-write", "add-noop-balance", "add-write",
	"append-tx-over-gas-pool", // not an access-list edit, handled by the C33 runner
}

func u(v uint64) *uint256.Int { return new(uint256.Int).SetUint64(v) }

// pickAcct returns the index of an account satisfying ok, starting the search at a.
func pickAcct(m []mAcct, a uint32, ok func(*mAcct) bool) int {
	if len(m) == 0 {
		return -1
	}
	for k := 0; k < len(m); k++ {
		i := (int(a) + k) % len(m)
		if ok(&m[i]) {
			return i
		}
	}
	return -1
}

func sortAccts(m []mAcct) {
	sort.SliceStable(m, func(i, j int) bool { return bytes.Compare(m[i].Addr[:], m[j].Addr[:]) < 0 })
}

// applyMut edits m in place; returns false if the mutation has no target in this list.
// maxIdx is the highest legal block-access index (len(txs)+1).
func applyMut(m *[]mAcct, mu Mut, maxIdx uint64) bool {
	l := *m
	switch mu.Kind {
	case 0: // drop an account
		if len(l) == 0 {
			return false
		}
		i := int(mu.A) % len(l)
		*m = append(l[:i:i], l[i+1:]...)
	case 1: // add an account that was never accessed
		na := mAcct{Addr: derivedAddr("spurious", int(mu.A%7))}
		if mu.B%3 == 0 {
			na.Reads = []*uint256.Int{u(uint64(mu.C % 5))}
		}
		l = append(l, na)
		sortAccts(l)
		*m = l
	case 2: // drop all writes of one slot
		i := pickAcct(l, mu.A, func(a *mAcct) bool { return len(a.Slots) > 0 })
		if i < 0 {
			return false
		}
		j := int(mu.B) % len(l[i].Slots)
		l[i].Slots = append(l[i].Slots[:j:j], l[i].Slots[j+1:]...)
	case 3: // drop a storage read
		i := pickAcct(l, mu.A, func(a *mAcct) bool { return len(a.Reads) > 0 })
		if i < 0 {
			return false
		}
		j := int(mu.B) % len(l[i].Reads)
		l[i].Reads = append(l[i].Reads[:j:j], l[i].Reads[j+1:]...)
	case 4: // add a storage read
		if len(l) == 0 {
			return false
		}
		i := int(mu.A) % len(l)
		l[i].Reads = append(l[i].Reads, u(uint64(mu.C%9)+uint64(mu.B%2)*1000))
		sort.SliceStable(l[i].Reads, func(x, y int) bool { return l[i].Reads[x].Cmp(l[i].Reads[y]) < 0 })
	case 5: // alter a storage post value
		i := pickAcct(l, mu.A, func(a *mAcct) bool { return len(a.Slots) > 0 })
		if i < 0 {
			return false
		}
		s := &l[i].Slots[int(mu.B)%len(l[i].Slots)]
		if len(s.Changes) == 0 {
			return false
		}
		w := &s.Changes[int(mu.C)%len(s.Changes)]
		if mu.C%2 == 0 {
			w.Val = new(uint256.Int).AddUint64(w.Val, 1)
		} else {
			w.Val = u(0)
		}
	case 6: // alter a post balance
		i := pickAcct(l, mu.A, func(a *mAcct) bool { return len(a.Balances) > 0 })
		if i < 0 {
			return false
		}
		b := &l[i].Balances[int(mu.B)%len(l[i].Balances)]
		if mu.C%2 == 0 {
			b.Bal = new(uint256.Int).AddUint64(b.Bal, 1)
		} else if !b.Bal.IsZero() {
			b.Bal = new(uint256.Int).SubUint64(b.Bal, 1)
		} else {
			b.Bal = u(1)
		}
	case 7: // alter a post nonce
		i := pickAcct(l, mu.A, func(a *mAcct) bool { return len(a.Nonces) > 0 })
		if i < 0 {
			return false
		}
		n := &l[i].Nonces[int(mu.B)%len(l[i].Nonces)]
		if mu.C%2 == 0 {
			n.Nonce++
		} else if n.Nonce > 0 {
			n.Nonce--
		}
	case 8: // alter deployed code
		i := pickAcct(l, mu.A, func(a *mAcct) bool { return len(a.Codes) > 0 })
		if i < 0 {
			return false
		}
		c := &l[i].Codes[int(mu.B)%len(l[i].Codes)]
		nc := append([]byte{}, c.Code...)
		if len(nc) > 0 && mu.C%2 == 0 {
			nc[int(mu.C/2)%len(nc)] ^= 1
		} else {
			nc = append(nc, 0)
		}
		c.Code = nc
	case 9: // move a change to another block-access index (kept sorted so that only semantics can object)
		i := pickAcct(l, mu.A, func(a *mAcct) bool {
			return len(a.Balances)+len(a.Nonces)+len(a.Codes)+len(a.Slots) > 0
		})
		if i < 0 {
			return false
		}
		a := &l[i]
		newIdx := func(old uint64) uint64 {
			n := uint64(mu.C) % (maxIdx + 1)
			if n == old {
				n = (old + 1) % (maxIdx + 1)
			}
			return n
		}
		switch k := mu.B % 4; {
		case k == 0 && len(a.Balances) > 0:
			e := &a.Balances[int(mu.C/7)%len(a.Balances)]
			e.Idx = newIdx(e.Idx)
			sort.SliceStable(a.Balances, func(x, y int) bool { return a.Balances[x].Idx < a.Balances[y].Idx })
		case k == 1 && len(a.Nonces) > 0:
			e := &a.Nonces[int(mu.C/7)%len(a.Nonces)]
			e.Idx = newIdx(e.Idx)
			sort.SliceStable(a.Nonces, func(x, y int) bool { return a.Nonces[x].Idx < a.Nonces[y].Idx })
		case k == 2 && len(a.Codes) > 0:
			e := &a.Codes[int(mu.C/7)%len(a.Codes)]
			e.Idx = newIdx(e.Idx)
			sort.SliceStable(a.Codes, func(x, y int) bool { return a.Codes[x].Idx < a.Codes[y].Idx })
		case len(a.Slots) > 0:
			s := &a.Slots[int(mu.C/7)%len(a.Slots)]
			if len(s.Changes) == 0 {
				return false
			}
			e := &s.Changes[int(mu.C/13)%len(s.Changes)]
			e.Idx = newIdx(e.Idx)
			sort.SliceStable(s.Changes, func(x, y int) bool { return s.Changes[x].Idx < s.Changes[y].Idx })
		case len(a.Balances) > 0:
			e := &a.Balances[int(mu.C/7)%len(a.Balances)]
			e.Idx = newIdx(e.Idx)
			sort.SliceStable(a.Balances, func(x, y int) bool { return a.Balances[x].Idx < a.Balances[y].Idx })
		default:
			return false
		}
	case 10: // duplicate an account entry (breaks strict ordering)
		if len(l) == 0 {
			return false
		}
		i := int(mu.A) % len(l)
		l = append(l[:i+1:i+1], l[i:]...)
		*m = l
	case 11: // swap two neighbouring accounts (unsorted)
		if len(l) < 2 {
			return false
		}
		i := int(mu.A) % (len(l) - 1)
		l[i], l[i+1] = l[i+1], l[i]
	case 12: // drop a single change
		i := pickAcct(l, mu.A, func(a *mAcct) bool { return len(a.Balances)+len(a.Nonces)+len(a.Codes) > 0 })
		if i < 0 {
			return false
		}
		a := &l[i]
		switch k := mu.B % 3; {
		case k == 0 && len(a.Balances) > 0, len(a.Nonces)+len(a.Codes) == 0:
			j := int(mu.C) % len(a.Balances)
			a.Balances = append(a.Balances[:j:j], a.Balances[j+1:]...)
		case k == 1 && len(a.Nonces) > 0, len(a.Codes) == 0:
			j := int(mu.C) % len(a.Nonces)
			a.Nonces = append(a.Nonces[:j:j], a.Nonces[j+1:]...)
		default:
			j := int(mu.C) % len(a.Codes)
			a.Codes = append(a.Codes[:j:j], a.Codes[j+1:]...)
		}
	case 13: // demote a written slot to a read
		i := pickAcct(l, mu.A, func(a *mAcct) bool { return len(a.Slots) > 0 })
		if i < 0 {
			return false
		}
		a := &l[i]
		j := int(mu.B) % len(a.Slots)
		slot := a.Slots[j].Slot
		a.Slots = append(a.Slots[:j:j], a.Slots[j+1:]...)
		a.Reads = append(a.Reads, slot)
		sort.SliceStable(a.Reads, func(x, y int) bool { return a.Reads[x].Cmp(a.Reads[y]) < 0 })
	case 14: // promote a read slot to a write
		i := pickAcct(l, mu.A, func(a *mAcct) bool { return len(a.Reads) > 0 })
		if i < 0 {
			return false
		}
		a := &l[i]
		j := int(mu.B) % len(a.Reads)
		slot := a.Reads[j]
		a.Reads = append(a.Reads[:j:j], a.Reads[j+1:]...)
		a.Slots = append(a.Slots, mSlot{Slot: slot, Changes: []mWrite{{Idx: uint64(mu.C) % (maxIdx + 1), Val: u(uint64(mu.C % 4))}}})
		sort.SliceStable(a.Slots, func(x, y int) bool { return a.Slots[x].Slot.Cmp(a.Slots[y].Slot) < 0 })
	case 15: // add a balance entry repeating the previous value at an unused index
		i := pickAcct(l, mu.A, func(a *mAcct) bool { return len(a.Balances) > 0 })
		if i < 0 {
			return false
		}
		a := &l[i]
		used := map[uint64]bool{}
		for _, b := range a.Balances {
			used[b.Idx] = true
		}
		for k := uint64(0); k <= maxIdx; k++ {
			idx := (uint64(mu.C) + k) % (maxIdx + 1)
			if used[idx] {
				continue
			}
			// value in force just before idx (or the first recorded one)
			val := a.Balances[0].Bal
			for _, b := range a.Balances {
				if b.Idx < idx {
					val = b.Bal
				}
			}
			a.Balances = append(a.Balances, mBal{Idx: idx, Bal: val.Clone()})
			sort.SliceStable(a.Balances, func(x, y int) bool { return a.Balances[x].Idx < a.Balances[y].Idx })
			return true
		}
		return false
	case 16: // add a write to an existing written slot at an unused index
		i := pickAcct(l, mu.A, func(a *mAcct) bool { return len(a.Slots) > 0 })
		if i < 0 {
			return false
		}
		s := &l[i].Slots[int(mu.B)%len(l[i].Slots)]
		used := map[uint64]bool{}
		for _, c := range s.Changes {
			used[c.Idx] = true
		}
		for k := uint64(0); k <= maxIdx; k++ {
			idx := (uint64(mu.C) + k) % (maxIdx + 1)
			if used[idx] {
				continue
			}
			s.Changes = append(s.Changes, mWrite{Idx: idx, Val: u(uint64(mu.C%5) + 1)})
			sort.SliceStable(s.Changes, func(x, y int) bool { return s.Changes[x].Idx < s.Changes[y].Idx })
			return true
		}
		return false
	default:
		return false
	}
	return true
}
