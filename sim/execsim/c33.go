package execsim

import (
	"bytes"
	"context"
	"encoding/json"
	"fmt"
	"math/big"
	"runtime"
	"sort"
	"strings"
	"sync/atomic"
	"testing"

	"github.com/ethereum/go-ethereum/common"
	"github.com/ethereum/go-ethereum/core"
	"github.com/ethereum/go-ethereum/core/rawdb"
	"github.com/ethereum/go-ethereum/core/state"
	"github.com/ethereum/go-ethereum/core/types"
	"github.com/ethereum/go-ethereum/core/vm"
	"github.com/ethereum/go-ethereum/params"
	"github.com/ethereum/go-ethereum/rlp"
	"github.com/ethereum/go-ethereum/trie"

	"verifsim/simcore"
	"verifsim/simdisk"
)

// Plan33 is one C33 case: a world, the knobs of the importing chain and the
// access-list mutations to try before each true block is imported.
type Plan33 struct {
	World   *World `json:"world"`
	Procs   int    `json:"procs"`    // GOMAXPROCS during the run = parallel worker count in the tree under test
	Scheme  string `json:"scheme"`   // hash | path
	CleanMB int    `json:"clean_mb"` // trie clean cache
	SnapMB  int    `json:"snap_mb"`  // snapshot / flat state cache
	Muts    []Mut  `json:"muts"`
}

func gen33(r *simcore.Rand, tier string) any {
	p := &Plan33{}
	p.World = genWorld(r, worldOpts{forks: []string{"amsterdam"}, maxBlocks: 2, maxTxs: 24, maxContr: 7, lowGasProb: 0.12, blockhash: true, pressure: true})
	p.Procs = []int{1, 2, 3, 4, 8, 16}[r.Intn(6)]
	p.Scheme = []string{rawdb.HashScheme, rawdb.PathScheme}[r.Intn(2)]
	p.CleanMB = []int{0, 1, 16}[r.Intn(3)]
	p.SnapMB = []int{0, 1, 16}[r.Intn(3)]
	for bi := range p.World.Blocks {
		for k := r.Range(1, 4); k > 0; k-- {
			p.Muts = append(p.Muts, Mut{Block: bi, Kind: r.Intn(len(mutNames)), A: uint32(r.Uint64()), B: uint32(r.Uint64()), C: uint32(r.Uint64())})
		}
	}
	return p
}

func decode33(b []byte) (any, error) {
	p := &Plan33{}
	err := json.Unmarshal(b, p)
	if err == nil && p.World == nil {
		err = fmt.Errorf("plan without world")
	}
	return p, err
}

func clone33(p *Plan33) *Plan33 {
	b, _ := json.Marshal(p)
	q := &Plan33{}
	json.Unmarshal(b, q)
	return q
}

func shrinkWorld(w *World, set func(*World) any) []any {
	var out []any
	cl := func() *World {
		b, _ := json.Marshal(w)
		q := &World{}
		json.Unmarshal(b, q)
		return q
	}
	if len(w.Blocks) > 1 {
		q := cl()
		q.Blocks = q.Blocks[:len(q.Blocks)-1]
		out = append(out, set(q))
	}
	for bi := range w.Blocks {
		for _, txs := range simcore.ShrinkSlice(w.Blocks[bi].Txs) {
			q := cl()
			q.Blocks[bi].Txs = txs
			out = append(out, set(q))
		}
		if len(w.Blocks[bi].Wds) > 0 {
			q := cl()
			q.Blocks[bi].Wds = nil
			out = append(out, set(q))
		}
	}
	// simplify contracts: replace code by STOP (keeps addresses stable)
	for ci := range w.Contracts {
		if len(w.Contracts[ci].Code) > 1 {
			q := cl()
			q.Contracts[ci].Code = HexBytes{0}
			out = append(out, set(q))
		}
	}
	for bi := range w.Blocks {
		for ti := range w.Blocks[bi].Txs {
			t := w.Blocks[bi].Txs[ti]
			if t.Value != 0 || t.Tip != 0 {
				q := cl()
				q.Blocks[bi].Txs[ti].Value, q.Blocks[bi].Txs[ti].Tip = 0, 0
				out = append(out, set(q))
			}
		}
	}
	return out
}

func shrink33(pl any) []any {
	p := pl.(*Plan33)
	var out []any
	for _, ms := range simcore.ShrinkSlice(p.Muts) {
		q := clone33(p)
		q.Muts = ms
		out = append(out, q)
	}
	out = append(out, shrinkWorld(p.World, func(w *World) any {
		q := clone33(p)
		q.World = w
		return q
	})...)
	if p.Procs != 2 {
		q := clone33(p)
		q.Procs = 2
		out = append(out, q)
	}
	if p.Scheme != rawdb.HashScheme || p.CleanMB != 16 || p.SnapMB != 16 {
		q := clone33(p)
		q.Scheme, q.CleanMB, q.SnapMB = rawdb.HashScheme, 16, 16
		out = append(out, q)
	}
	return out
}

// ---- recording wrappers around the real processor and validator

type recProcessor struct {
	inner core.Processor
	res   *core.ProcessResult
	err   error
	calls int
	root  common.Hash // post-state root of the state the real processor worked on (taken in ValidateState)
}

func (p *recProcessor) Process(ctx context.Context, block *types.Block, statedb *state.StateDB, jd vm.JumpDestCache, pc *vm.PrecompileCache, cfg vm.Config, execIndex *atomic.Int64) (*core.ProcessResult, error) {
	res, err := p.inner.Process(ctx, block, statedb, jd, pc, cfg, execIndex)
	p.res, p.err = res, err
	p.calls++
	return res, err
}

type recValidator struct {
	inner    core.Validator
	bodyErr  error
	stateErr error
	stateN   int
}

func (v *recValidator) ValidateBody(block *types.Block) error {
	v.bodyErr = v.inner.ValidateBody(block)
	return v.bodyErr
}

func (v *recValidator) ValidateState(block *types.Block, statedb *state.StateDB, res *core.ProcessResult, stateless bool) error {
	v.stateErr = v.inner.ValidateState(block, statedb, res, stateless)
	v.stateN++
	return v.stateErr
}

type sutChain struct {
	bc   *core.BlockChain
	kv   *simdisk.SimKV
	proc *recProcessor
	val  *recValidator
}

func (c *sutChain) reset() {
	c.proc.res, c.proc.err, c.proc.calls = nil, nil, 0
	c.val.bodyErr, c.val.stateErr, c.val.stateN = nil, nil, 0
}

// stage tells where an import was rejected.
func (c *sutChain) stage(err error) string {
	switch {
	case err == nil:
		return "accepted"
	case c.val.bodyErr != nil:
		return "body"
	case c.proc.calls > 0 && c.proc.err != nil:
		return "process"
	case c.val.stateN > 0 && c.val.stateErr != nil:
		return "state"
	case c.proc.calls == 0:
		return "header"
	}
	return "other"
}

func newSUTChain(gspec *core.Genesis, scheme string, cleanMB, snapMB int, vmcfg vm.Config) (*sutChain, error) {
	kv := simdisk.NewSimKV(nil)
	cfg := core.DefaultConfig().WithStateScheme(scheme)
	cfg.TrieCleanLimit = cleanMB
	cfg.SnapshotLimit = snapMB
	cfg.TrieDirtyLimit = 16
	cfg.VmConfig = vmcfg
	cfg.SnapshotWait = true
	bc, err := core.NewBlockChain(rawdb.NewDatabase(kv), gspec, newEngine(), cfg)
	if err != nil {
		return nil, err
	}
	c := &sutChain{bc: bc, kv: kv}
	c.proc = &recProcessor{inner: bc.Processor()}
	c.val = &recValidator{inner: bc.Validator()}
	bc.SetBlockValidatorAndProcessorForTesting(c.val, c.proc)
	return c, nil
}

// ---- result comparison

func dumpLog(l *types.Log) string {
	return fmt.Sprintf("{%x %x %x n=%d tx=%x ti=%d bh=%x i=%d rm=%v ts=%d}", l.Address, l.Topics, l.Data, l.BlockNumber, l.TxHash, l.TxIndex, l.BlockHash, l.Index, l.Removed, l.BlockTimestamp)
}

// resultFields renders a ProcessResult as named fields for field-by-field comparison.
func resultFields(res *core.ProcessResult) map[string]string {
	f := map[string]string{}
	f["gas_used"] = fmt.Sprint(res.GasUsed)
	f["receipts.len"] = fmt.Sprint(len(res.Receipts))
	for i, r := range res.Receipts {
		p := fmt.Sprintf("receipt[%02d].", i)
		f[p+"type"] = fmt.Sprint(r.Type)
		f[p+"post_state"] = fmt.Sprintf("%x", r.PostState)
		f[p+"status"] = fmt.Sprint(r.Status)
		f[p+"cumulative_gas"] = fmt.Sprint(r.CumulativeGasUsed)
		f[p+"bloom"] = fmt.Sprintf("%x", simcore.NewHash().Bytes(r.Bloom[:]))
		f[p+"tx_hash"] = r.TxHash.Hex()
		f[p+"contract"] = r.ContractAddress.Hex()
		f[p+"gas_used"] = fmt.Sprint(r.GasUsed)
		f[p+"blob_gas"] = fmt.Sprint(r.BlobGasUsed)
		f[p+"block_hash"] = r.BlockHash.Hex()
		f[p+"block_number"] = fmt.Sprint(r.BlockNumber)
		f[p+"tx_index"] = fmt.Sprint(r.TransactionIndex)
		var ls []string
		for _, l := range r.Logs {
			ls = append(ls, dumpLog(l))
		}
		f[p+"logs"] = strings.Join(ls, ",")
	}
	var ls []string
	for _, l := range res.Logs {
		ls = append(ls, dumpLog(l))
	}
	f["logs"] = strings.Join(ls, ",")
	if res.Requests == nil {
		f["requests"] = "<nil>"
	} else {
		var rs []string
		for _, q := range res.Requests {
			rs = append(rs, fmt.Sprintf("%x", q))
		}
		f["requests"] = "[" + strings.Join(rs, ",") + "]"
	}
	if res.Bal == nil {
		f["access_list"] = "<nil>"
	} else {
		var buf bytes.Buffer
		enc := res.Bal.ToEncodingObj()
		if err := enc.EncodeRLP(&buf); err != nil {
			f["access_list"] = "encode error: " + err.Error()
		} else {
			f["access_list"] = fmt.Sprintf("%x", buf.Bytes())
		}
		f["access_list_hash"] = enc.Hash().Hex()
	}
	return f
}

func diffFields(a, b map[string]string) []string {
	keys := map[string]bool{}
	for k := range a {
		keys[k] = true
	}
	for k := range b {
		keys[k] = true
	}
	var ks []string
	for k := range keys {
		if a[k] != b[k] {
			ks = append(ks, k)
		}
	}
	sort.Strings(ks)
	return ks
}

func trunc(s string, n int) string {
	if len(s) > n {
		return s[:n] + "..."
	}
	return s
}

// conflictDegree counts access-list entries changed at two or more block-access indices
// (a later transaction depends on what an earlier one wrote).
func conflictDegree(m []mAcct) int {
	n := 0
	for i := range m {
		if len(m[i].Balances) > 1 {
			n++
		}
		if len(m[i].Nonces) > 1 {
			n++
		}
		for _, s := range m[i].Slots {
			if len(s.Changes) > 1 {
				n++
			}
		}
	}
	return n
}

func run33(t *testing.T, pl any) *simcore.Result {
	p := pl.(*Plan33)
	res := simcore.NewResult()
	if p.Procs > 0 {
		old := runtime.GOMAXPROCS(p.Procs)
		defer runtime.GOMAXPROCS(old)
	}
	lh := simcore.NewHash()
	sfp := simcore.NewHash().U64(uint64(p.Procs)).String(p.Scheme).U64(uint64(p.CleanMB)).U64(uint64(p.SnapMB))

	b := newBuilder(p.World)
	par, err := newSUTChain(b.gspec, p.Scheme, p.CleanMB, p.SnapMB, vm.Config{})
	if err != nil {
		simcore.Harnessf("execsim C33: new parallel chain: %v", err)
	}
	defer par.bc.Stop()
	seq, err := newSUTChain(b.gspec, rawdb.HashScheme, 16, 16, vm.Config{DisableParallelExecution: true})
	if err != nil {
		simcore.Harnessf("execsim C33: new sequential chain: %v", err)
	}
	defer seq.bc.Stop()
	b.hdrChain = seq.bc // BLOCKHASH during generation resolves ancestors through the sequential chain

	for bi := range p.World.Blocks {
		blk, _ := b.next(bi)
		if blk.AccessList() == nil || blk.Header().BlockAccessListHash == nil {
			simcore.Harnessf("execsim C33: generated Amsterdam block carries no access list")
		}
		ntx := len(blk.Transactions())
		parentHash := blk.ParentHash()
		lh = lh.Bytes(blk.Hash().Bytes())
		mirror := balToMirror(blk.AccessList())
		var trueEnc bytes.Buffer
		blk.AccessList().EncodeRLP(&trueEnc)
		if cd := conflictDegree(mirror); cd > 0 && ntx >= 2 {
			res.NonTrivial = true
			res.Probes["blocks-with-cross-tx-dependency"]++
		}
		for _, rc := range b.lastReceipts {
			if rc.Status == types.ReceiptStatusFailed {
				res.Probes["failed-txs"]++
			}
		}
		res.Probes["txs"] += ntx
		for _, tx := range blk.Transactions() {
			if tx.Gas() > params.MaxTxGas {
				res.Probes["txs-with-limit-above-max-tx-gas"]++
			}
		}
		if blk.GasUsed() > blk.GasLimit()/3 {
			res.Probes["blocks-using-over-a-third-of-gas-limit"]++
		}
		if !par.bc.VerifExecsimUsesAccessList(blk, false) {
			simcore.Harnessf("execsim C33: block %d would not take the access-list driven path", bi)
		}

		// ---- mutation phase: every mutated list must be rejected, the head must stay.
		for _, mu := range p.Muts {
			if mu.Block != bi {
				continue
			}
			m := balToMirror(blk.AccessList())
			name := "?"
			if mu.Kind >= 0 && mu.Kind < len(mutNames) {
				name = mutNames[mu.Kind]
			}
			var bad *types.Block
			if name == "append-tx-over-gas-pool" {
				// not an access-list edit: an otherwise valid extra transaction whose gas limit cannot fit the block
				// gas pool; the transaction root is recomputed, so only the processors' gas accounting can reject it.
				// Both modes must agree on rejecting.
				from := int(mu.A) % p.World.Senders
				to := senderAddr(int(mu.B) % p.World.Senders)
				feeCap := new(big.Int).Add(blk.BaseFee(), big.NewInt(2_000_000_000))
				extra := types.MustSignNewTx(senderKeys[from].key, b.signer, &types.DynamicFeeTx{
					ChainID: b.gspec.Config.ChainID, Nonce: b.nonces[from], To: &to, Value: big.NewInt(1),
					Gas: blk.GasLimit() + 1 + uint64(mu.C%1000), GasFeeCap: feeCap, GasTipCap: big.NewInt(1),
				})
				body := *blk.Body()
				body.Transactions = append(append(types.Transactions{}, body.Transactions...), extra)
				h := blk.Header()
				h.TxHash = types.DeriveSha(types.Transactions(body.Transactions), trie.NewStackTrie(nil))
				bad = types.NewBlockWithHeader(h).WithBody(body).WithAccessListUnsafe(blk.AccessList().Copy())
			} else {
				if !applyMut(&m, mu, uint64(ntx+1)) {
					res.Probes["mutation-no-target"]++
					continue
				}
				mlist, enc, err := mirrorToBal(m)
				if err != nil {
					res.Probes["mutation-not-encodable"]++
					continue
				}
				if bytes.Equal(enc, trueEnc.Bytes()) {
					res.Probes["mutation-identical"]++
					continue
				}
				h := blk.Header()
				mh := mlist.Hash()
				h.BlockAccessListHash = &mh
				bad = types.NewBlockWithHeader(h).WithBody(*blk.Body()).WithAccessListUnsafe(mlist)
			}
			res.Faults["mut:"+name]++
			for ci, c := range []*sutChain{par, seq} {
				mode := []string{"parallel", "sequential"}[ci]
				c.reset()
				_, ierr := c.bc.InsertChain(types.Blocks{bad})
				st := c.stage(ierr)
				lh = lh.String(name).String(mode).String(st)
				res.Probes["rejected-at-"+st+":"+mode]++
				head := c.bc.CurrentBlock()
				if ierr == nil {
					return res.Fail(&simcore.Violation{Oracle: "mutated-access-list-accepted", Key: "mutated-access-list-accepted:" + mode + ":" + name,
						Msg: fmt.Sprintf("block %d (%d txs): access list mutated by %s (%+v) with the header commitment recomputed was imported by the %s chain without error; head is now %x (number %d)", bi, ntx, name, mu, mode, head.Hash(), head.Number)})
				}
				if head.Hash() != parentHash {
					return res.Fail(&simcore.Violation{Oracle: "head-moved-by-rejected-block", Key: "head-moved-by-rejected-block:" + mode,
						Msg: fmt.Sprintf("block %d: import of the %s-mutated block failed (%v) but the head moved from %x to %x", bi, name, errStr(ierr), parentHash, head.Hash())})
				}
			}
		}

		// ---- true block: both chains import it; results of the real processors are compared.
		seq.reset()
		if _, err := seq.bc.InsertChain(types.Blocks{blk}); err != nil {
			simcore.Harnessf("execsim C33: sequential chain rejects the generated block %d (%s): %v", bi, seq.stage(err), err)
		}
		seqRes := seq.proc.res
		par.reset()
		_, perr := par.bc.InsertChain(types.Blocks{blk})
		if perr != nil {
			msg := fmt.Sprintf("block %d (%d txs, procs %d): sequential import succeeded, access-list driven import failed at %s: %v", bi, ntx, p.Procs, par.stage(perr), errStr(perr))
			if par.proc.res != nil && seqRes != nil {
				msg += fmt.Sprintf("; differing result fields: %v", diffFields(resultFields(par.proc.res), resultFields(seqRes)))
			}
			return res.Fail(&simcore.Violation{Oracle: "parallel-rejects-true-block", Key: "parallel-rejects-true-block:" + par.stage(perr), Msg: msg})
		}
		parRes := par.proc.res
		if parRes == nil || seqRes == nil {
			simcore.Harnessf("execsim C33: processor wrapper saw no result")
		}
		pf, sf := resultFields(parRes), resultFields(seqRes)
		if d := diffFields(pf, sf); len(d) > 0 {
			k := d[0]
			return res.Fail(&simcore.Violation{Oracle: "parallel-result-differs", Key: "parallel-result-differs",
				Msg: fmt.Sprintf("block %d (%d txs, procs %d): fields %v differ; %s: parallel=%s sequential=%s", bi, ntx, p.Procs, d, k, trunc(pf[k], 400), trunc(sf[k], 400))})
		}
		if pf["access_list"] != fmt.Sprintf("%x", trueEnc.Bytes()) {
			return res.Fail(simcore.Violf("rebuilt-access-list-differs", "block %d: rebuilt access list differs from the block's", bi))
		}
		if h := par.bc.CurrentBlock(); h.Hash() != blk.Hash() || h.Root != blk.Root() {
			return res.Fail(simcore.Violf("head-not-on-true-block", "block %d: import succeeded but head is %x", bi, h.Hash()))
		}
		if !par.bc.HasState(blk.Root()) {
			return res.Fail(simcore.Violf("post-state-missing", "block %d: state %x not available after import", bi, blk.Root()))
		}
		// post state of both chains enumerates identically (root equality is checked by the real validator;
		// this reads the accounts back through the importing chain's own database)
		lh = lh.String(pf["access_list_hash"]).String(pf["gas_used"]).String(pf["logs"]).String(pf["requests"])
		sfp = sfp.String(pf["access_list_hash"])
		if len(parRes.Requests) > 0 {
			res.Probes["blocks-with-requests"]++
		}
		if len(parRes.Logs) > 0 {
			res.Probes["blocks-with-logs"]++
		}
		for i := range mirror {
			if len(mirror[i].Codes) > 0 {
				res.Probes["code-changes"]++
			}
		}
	}
	res.Probes["txs-dropped-by-generator"] += b.dropped
	res.Events = int(par.kv.Reads.Load() + par.kv.Writes.Load())
	res.StateFP = uint64(sfp)
	res.LogHash = uint64(lh)
	_ = rlp.EmptyString
	return res
}
