// Package feedsim decides C50: event.Feed / event.FeedOf deliver every value
// exactly once to every subscription active for the whole send, in send order,
// and nothing after Unsubscribe returned — for every schedule of senders,
// receivers and unsubscribers, all of which are scheduler-owned actors.
package feedsim

import (
	"encoding/json"
	"fmt"
	"os"
	"sort"
	"sync"
	"testing"
	"time"

	"github.com/ethereum/go-ethereum/event"

	"verifsim/simcore"
	"verifsim/simsched"
	"verifsim/simyield"
)

type Phase struct {
	Recv    int  `json:"recv"`     // receives attempted before unsubscribing
	Scoped  bool `json:"scoped"`   // subscription tracked in a SubscriptionScope and cancelled through it
	DoubleU bool `json:"double_u"` // Unsubscribe called twice (must be idempotent)
}

type SubScript struct {
	Buf    int     `json:"buf"`
	Phases []Phase `json:"phases"`
}

type Plan struct {
	Yields  bool        `json:"yields"`  // park actors at the yield points inserted into event/feed*.go (before Lock, after Unlock, before channel ops)
	Generic bool        `json:"generic"` // FeedOf[int] instead of Feed
	Senders [][]int     `json:"senders"` // values per sender, globally unique
	Subs    []SubScript `json:"subs"`
	Tape    []uint16    `json:"tape"`
}

func Gen(r *simcore.Rand, tier string) any {
	p := &Plan{Generic: r.Bool(0.5), Yields: r.Bool(0.7)}
	ns := r.Range(1, 3)
	v := 1
	for i := 0; i < ns; i++ {
		n := r.Range(1, 5)
		var vals []int
		for j := 0; j < n; j++ {
			vals = append(vals, v)
			v++
		}
		p.Senders = append(p.Senders, vals)
	}
	nsub := r.Range(1, 4)
	for i := 0; i < nsub; i++ {
		s := SubScript{Buf: r.Intn(3)}
		np := r.Range(1, 2)
		for j := 0; j < np; j++ {
			s.Phases = append(s.Phases, Phase{Recv: r.Intn(v + 1), Scoped: r.Bool(0.2), DoubleU: r.Bool(0.15)})
		}
		p.Subs = append(p.Subs, s)
	}
	p.Tape = r.Tape(40 + 12*v*nsub)
	if p.Yields {
		p.Tape = r.Tape(120 + 60*v*nsub)
	}
	return p
}

func Decode(b []byte) (any, error) {
	p := &Plan{}
	err := json.Unmarshal(b, p)
	return p, err
}

func Shrink(pl any) []any {
	p := pl.(*Plan)
	var out []any
	clone := func() *Plan {
		b, _ := json.Marshal(p)
		q := &Plan{}
		json.Unmarshal(b, q)
		return q
	}
	for i := range p.Senders {
		if len(p.Senders) > 1 {
			q := clone()
			q.Senders = append(q.Senders[:i], q.Senders[i+1:]...)
			out = append(out, q)
		}
	}
	for i := range p.Subs {
		if len(p.Subs) > 1 {
			q := clone()
			q.Subs = append(q.Subs[:i], q.Subs[i+1:]...)
			out = append(out, q)
		}
	}
	for i := range p.Senders {
		for _, s := range simcore.ShrinkSlice(p.Senders[i]) {
			if len(s) == 0 {
				continue
			}
			q := clone()
			q.Senders[i] = s
			out = append(out, q)
		}
	}
	for i := range p.Subs {
		if len(p.Subs[i].Phases) > 1 {
			q := clone()
			q.Subs[i].Phases = q.Subs[i].Phases[:1]
			out = append(out, q)
			q = clone()
			q.Subs[i].Phases = q.Subs[i].Phases[1:]
			out = append(out, q)
		}
		for j, ph := range p.Subs[i].Phases {
			if ph.Recv > 0 {
				q := clone()
				q.Subs[i].Phases[j].Recv = ph.Recv / 2
				out = append(out, q)
			}
			if ph.Scoped || ph.DoubleU {
				q := clone()
				q.Subs[i].Phases[j].Scoped, q.Subs[i].Phases[j].DoubleU = false, false
				out = append(out, q)
			}
		}
		if p.Subs[i].Buf > 0 {
			q := clone()
			q.Subs[i].Buf = 0
			out = append(out, q)
		}
	}
	if p.Generic {
		q := clone()
		q.Generic = false
		out = append(out, q)
	}
	if p.Yields {
		q := clone()
		q.Yields = false
		out = append(out, q)
	}
	for _, t := range simcore.ShrinkTape(p.Tape) {
		q := clone()
		q.Tape = t
		out = append(out, q)
	}
	return out
}

// feed adapts Feed and FeedOf[int].
type feed interface {
	Subscribe(ch chan int) event.Subscription
	Send(v int) int
}
type reflFeed struct{ f event.Feed }

func (f *reflFeed) Subscribe(ch chan int) event.Subscription { return f.f.Subscribe(ch) }
func (f *reflFeed) Send(v int) int                           { return f.f.Send(v) }

type genFeed struct{ f event.FeedOf[int] }

func (f *genFeed) Subscribe(ch chan int) event.Subscription { return f.f.Subscribe(ch) }
func (f *genFeed) Send(v int) int                           { return f.f.Send(v) }

// debugging aid (determinism investigations)
var (
	DebugTrace []string
	debugOn    = os.Getenv("FEED_DEBUG") != ""
)

// history
type subRec struct {
	id       int // subscription instance id
	actor    int
	subRet   uint64 // seq at which Subscribe returned
	unsubInv uint64 // seq at which Unsubscribe was invoked (0 = never)
	unsubRet uint64
	recv     []int // values in receive order (including those drained right after Unsubscribe returned)
	late     []int // values found in the channel at the end of the run: delivered after Unsubscribe returned
}
type sendRec struct {
	v        int
	inv, ret uint64
	n        int
}

type hist struct {
	mu    sync.Mutex
	seq   uint64
	subs  []*subRec
	sends []*sendRec
}

func (h *hist) tick() uint64 {
	h.mu.Lock()
	defer h.mu.Unlock()
	h.seq++
	return h.seq
}

func Run(t *testing.T, pl any) *simcore.Result {
	p := pl.(*Plan)
	res := simcore.NewResult()
	var h hist
	var stuck string
	type chanRec struct {
		ch  chan int
		rec *subRec
	}
	var chans []chanRec
	var sched *simsched.Sched

	dl := simsched.Bubble(t, func() {
		start := time.Now()
		var f feed
		if p.Generic {
			f = &genFeed{}
		} else {
			f = &reflFeed{}
		}
		sched = simsched.New(p.Tape, simsched.ModeWait)
		var actors sync.Map // goroutine id -> actor name
		if p.Yields {
			simyield.Set(func(label string) {
				if name, ok := actors.Load(simsched.GoID()); ok {
					sched.Gate(name.(string) + ":y:" + label)
				}
			})
			defer simyield.Set(nil)
		}
		quit := make(chan struct{})
		var sendersLeft = len(p.Senders)
		var qmu sync.Mutex
		for i, vals := range p.Senders {
			i, vals := i, vals
			sched.Go(fmt.Sprintf("S%d", i), func() {
				actors.Store(simsched.GoID(), fmt.Sprintf("S%d", i))
				for _, v := range vals {
					sched.Gate(fmt.Sprintf("S%d:send:%d", i, v))
					rec := &sendRec{v: v}
					rec.inv = h.tick()
					n := f.Send(v)
					rec.ret = h.tick()
					rec.n = n
					h.mu.Lock()
					h.sends = append(h.sends, rec)
					h.mu.Unlock()
				}
				qmu.Lock()
				sendersLeft--
				if sendersLeft == 0 {
					close(quit)
				}
				qmu.Unlock()
			})
		}
		nextID := 0
		for i, sc := range p.Subs {
			i, sc := i, sc
			for range sc.Phases {
				h.subs = append(h.subs, &subRec{id: nextID, actor: i})
				nextID++
			}
			base := nextID - len(sc.Phases)
			sched.Go(fmt.Sprintf("R%d", i), func() {
				actors.Store(simsched.GoID(), fmt.Sprintf("R%d", i))
				for pi, ph := range sc.Phases {
					rec := h.subs[base+pi]
					ch := make(chan int, sc.Buf)
					h.mu.Lock()
					chans = append(chans, chanRec{ch, rec})
					h.mu.Unlock()
					sched.Gate(fmt.Sprintf("R%d:sub:%d", i, pi))
					var scope event.SubscriptionScope
					sub := f.Subscribe(ch)
					if ph.Scoped {
						sub = scope.Track(sub)
					}
					rec.subRet = h.tick()
				recvLoop:
					for k := 0; k < ph.Recv; k++ {
						sched.Gate(fmt.Sprintf("R%d:recv:%d:%d", i, pi, k))
						// value first: when the last sender has finished, quit and a buffered
						// value may both be ready, and Go's select would choose at random
						select {
						case v := <-ch:
							rec.recv = append(rec.recv, v)
							continue
						default:
						}
						select {
						case v := <-ch:
							rec.recv = append(rec.recv, v)
						case <-quit:
							break recvLoop
						}
					}
					sched.Gate(fmt.Sprintf("R%d:unsub:%d", i, pi))
					rec.unsubInv = h.tick()
					if ph.Scoped {
						scope.Close()
					} else {
						sub.Unsubscribe()
					}
					rec.unsubRet = h.tick()
					// whatever sits in the buffer now was delivered before Unsubscribe returned
				drain:
					for {
						select {
						case v := <-ch:
							rec.recv = append(rec.recv, v)
						default:
							break drain
						}
					}
					if ph.DoubleU {
						sched.Gate(fmt.Sprintf("R%d:unsub2:%d", i, pi))
						sub.Unsubscribe()
					}
				}
			})
		}
		sched.KeepLog = DebugTrace == nil && debugOn
		sched.Run()
		if debugOn {
			DebugTrace = sched.Trace
		}
		if sched.Err != nil {
			stuck = sched.Err.Error()
		}
		// end of run: anything in a channel now arrived after its Unsubscribe returned
		for _, c := range chans {
		late:
			for {
				select {
				case v := <-c.ch:
					c.rec.late = append(c.rec.late, v)
				default:
					break late
				}
			}
		}
		res.SimTimeNS = int64(time.Since(start))
	})
	res.SchedFP = sched.FP()
	res.Events = sched.Steps()
	res.NonTrivial = sched.Choices() >= 2
	if dl != "" {
		return res.Fail(simcore.Violf("feed-deadlock", "bubble deadlocked although every receiver eventually receives or unsubscribes: %s", dl))
	}
	if stuck != "" {
		simcore.Harnessf("feedsim scheduler: %s", stuck)
	}
	if v := checkHistory(&h, res); v != nil {
		res.Fail(v)
	}
	// determinism fingerprint: per-actor logs only (the global stamp order of two
	// goroutines woken by one channel operation is not decided by the simulator)
	lh := simcore.NewHash()
	sort.Slice(h.sends, func(i, j int) bool { return h.sends[i].v < h.sends[j].v })
	for _, s := range h.sends {
		lh = lh.U64(uint64(s.v)).U64(uint64(s.n))
	}
	for _, s := range h.subs {
		lh = lh.U64(uint64(s.id))
		for _, v := range s.recv {
			lh = lh.U64(uint64(v))
		}
	}
	res.LogHash = uint64(lh.U64(res.SchedFP))
	res.StateFP = uint64(lh)
	return res
}

func checkHistory(h *hist, res *simcore.Result) *simcore.Violation {
	sends := map[int]*sendRec{}
	for _, s := range h.sends {
		sends[s.v] = s
	}
	got := map[int]int{} // value -> number of subscriptions that received it
	for _, s := range h.subs {
		if len(s.late) > 0 {
			return simcore.Violf("delivered-after-unsubscribe", "subscription %d (actor R%d): values %v arrived on the channel after Unsubscribe had returned", s.id, s.actor, s.late)
		}
		seen := map[int]bool{}
		for _, v := range s.recv {
			if seen[v] {
				return simcore.Violf("duplicate-delivery", "subscription %d received value %d twice: %v", s.id, v, s.recv)
			}
			seen[v] = true
			sr := sends[v]
			if sr == nil {
				return simcore.Violf("phantom-value", "subscription %d received %d which no completed Send carried", s.id, v)
			}
			// a value cannot be received by a subscription created after the send returned
			if s.subRet > sr.ret {
				return simcore.Violf("delivery-outside-lifetime", "subscription %d (Subscribe returned at %d) received %d whose Send returned at %d", s.id, s.subRet, v, sr.ret)
			}
			got[v]++
		}
	}
	for _, sr := range h.sends {
		if got[sr.v] != sr.n {
			return simcore.Violf("send-count", "Send(%d) returned %d but %d subscriptions received it", sr.v, sr.n, got[sr.v])
		}
		for _, s := range h.subs {
			if s.subRet != 0 && s.subRet < sr.inv && (s.unsubInv == 0 || s.unsubInv > sr.ret) {
				found := false
				for _, v := range s.recv {
					if v == sr.v {
						found = true
					}
				}
				if !found {
					return simcore.Violf("missed-delivery", "subscription %d was active for the whole Send(%d) [%d,%d] (sub %d, unsub %d) but did not receive it", s.id, sr.v, sr.inv, sr.ret, s.subRet, s.unsubInv)
				}
				res.Probe("active-for-whole-send")
			}
		}
		if sr.n == 0 {
			res.Probe("send-to-nobody")
		}
	}
	// order: real-time order of non-overlapping sends, and one common order
	pos := func(s *subRec) map[int]int {
		m := map[int]int{}
		for i, v := range s.recv {
			m[v] = i
		}
		return m
	}
	for _, s := range h.subs {
		for i := 0; i+1 < len(s.recv); i++ {
			a, b := sends[s.recv[i]], sends[s.recv[i+1]]
			if b.ret < a.inv {
				return simcore.Violf("order-realtime", "subscription %d saw %d before %d although Send(%d) returned (%d) before Send(%d) was invoked (%d)", s.id, a.v, b.v, b.v, b.ret, a.v, a.inv)
			}
		}
	}
	for i := 0; i < len(h.subs); i++ {
		pi := pos(h.subs[i])
		for j := i + 1; j < len(h.subs); j++ {
			pj := pos(h.subs[j])
			var common []int
			for v := range pi {
				if _, ok := pj[v]; ok {
					common = append(common, v)
				}
			}
			sort.Ints(common)
			for a := 0; a < len(common); a++ {
				for b := a + 1; b < len(common); b++ {
					x, y := common[a], common[b]
					if (pi[x] < pi[y]) != (pj[x] < pj[y]) {
						return simcore.Violf("order-common", "subscriptions %d and %d disagree on the order of %d and %d", h.subs[i].id, h.subs[j].id, x, y)
					}
				}
			}
		}
	}
	// each sender's own values arrive in its program order
	// (covered by order-realtime: consecutive sends of one sender do not overlap)

	return nil
}

func Checks() map[string]*simcore.Check {
	return map[string]*simcore.Check{"C50": {
		ID: "C50", Engine: "feedsim", Level: "exploration",
		Rule: "plans = 1-3 senders x 1-5 unique values, 1-4 subscriber actors x 1-2 subscribe/receive/unsubscribe phases, buffers 0-2, Feed or FeedOf; every Send, receive, Subscribe and Unsubscribe is one gated step released by the plan's tape. Non-trivial = the scheduler had a real choice (>=2 parked goroutines) at >=2 steps; distinct = distinct (released-gate sequence, per-actor observation log) fingerprints.",
		Assumptions: []string{
			"global stamps of two goroutines woken by the same channel operation are ordered by a mutex, not by the tape; every oracle clause holds for either order",
			"interleavings inside Feed.Send between two channel operations are not decided (no seam); perturbed by GOMAXPROCS only",
		},
		Components: simcore.Components{Real: []string{"event.Feed", "event.FeedOf", "event.SubscriptionScope", "event feedSub/feedOfSub"}, Stub: []string{"senders, receivers and unsubscribers (scheduler-owned actors)", "clock (synctest bubble)"}},
		Runs:       map[string]int{"quick": 24000, "thorough": 1200000},
		Gen:        Gen, Decode: Decode, Run: Run, Shrink: Shrink,
		ProbeNames: []string{"active-for-whole-send", "send-to-nobody"},
	}}
}
