//go:build verif

package light

import (
	"github.com/ethereum/go-ethereum/beacon/types"
	"github.com/ethereum/go-ethereum/common"
	"github.com/ethereum/go-ethereum/ethdb"
	"github.com/ethereum/go-ethereum/rlp"
)

// verifPeek reads what canonicalStore.get would return, without touching the LRU
// order or filling the cache.
func verifPeek[T any](cs *canonicalStore[T], db ethdb.KeyValueReader, period uint64) (T, bool) {
	var null, value T
	if !cs.periods.contains(period) {
		return null, false
	}
	if v, ok := cs.cache.Peek(period); ok {
		return v, true
	}
	enc, err := db.Get(cs.databaseKey(period))
	if err != nil {
		return null, false
	}
	if err := rlp.DecodeBytes(enc, &value); err != nil {
		return null, false
	}
	return value, true
}

// White-box accessors for the verification harness (netsim, C53). They add symbols
// and change no behaviour.

type VerifChainState struct {
	CommitteeRange [2]uint64 // [start, end)
	UpdateRange    [2]uint64
	FixedRange     [2]uint64
	Committees     map[uint64]*types.SerializedSyncCommittee // nil entry: inside the range but not retrievable
	Updates        map[uint64]*types.LightClientUpdate
	FixedRoots     map[uint64]common.Hash
}

// VerifState returns everything the chain currently holds (cache first, then
// database, as its own reads do, but without side effects on the caches).
func (s *CommitteeChain) VerifState() VerifChainState {
	s.chainmu.RLock()
	defer s.chainmu.RUnlock()
	st := VerifChainState{
		CommitteeRange: [2]uint64{s.committees.periods.Start, s.committees.periods.End},
		UpdateRange:    [2]uint64{s.updates.periods.Start, s.updates.periods.End},
		FixedRange:     [2]uint64{s.fixedCommitteeRoots.periods.Start, s.fixedCommitteeRoots.periods.End},
		Committees:     map[uint64]*types.SerializedSyncCommittee{},
		Updates:        map[uint64]*types.LightClientUpdate{},
		FixedRoots:     map[uint64]common.Hash{},
	}
	for p := st.CommitteeRange[0]; p < st.CommitteeRange[1]; p++ {
		c, _ := verifPeek(s.committees, s.db, p)
		st.Committees[p] = c
	}
	for p := st.UpdateRange[0]; p < st.UpdateRange[1]; p++ {
		u, _ := verifPeek(s.updates, s.db, p)
		st.Updates[p] = u
	}
	for p := st.FixedRange[0]; p < st.FixedRange[1]; p++ {
		r, _ := verifPeek(s.fixedCommitteeRoots, s.db, p)
		st.FixedRoots[p] = r
	}
	return st
}

// VerifValidate is HeadTracker.validate (signer threshold + committee signature),
// without the execution payload proof that the exported entry points check first.
func (h *HeadTracker) VerifValidate(head, oldHead types.SignedHeader) (bool, error) {
	h.lock.Lock()
	defer h.lock.Unlock()
	return h.validate(head, oldHead)
}
