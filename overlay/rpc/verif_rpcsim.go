//go:build verif

package rpc

import (
	"context"
	"io"
)

// White-box accessor for the verification harness (added through go build -overlay, never
// part of the shipped tree). It adds a symbol and changes no behaviour.

// VerifServeHandlerCtx drives one real handler over codec exactly like serveSingleRequest
// does for one HTTP request, but for every message of a persistent connection, with the
// caller's connection context (which may carry a deadline or an *http.Server with a
// WriteTimeout, so that ContextRequestTimeout arms the handler's timeout timers) and with
// subscriptions allowed as on ServeCodec connections. No public entry point of the package
// composes "subscriptions allowed" with "request timeout"; this exists to exercise the
// handler's timeout-vs-subscription code, which is reachable only in that combination.
func (s *Server) VerifServeHandlerCtx(ctx context.Context, codec ServerCodec) {
	defer codec.close()
	h := newHandler(ctx, codec, s.idgen, &s.services, s.batchItemLimit, s.batchResponseLimit, s.tracerProvider)
	defer h.close(io.EOF, nil)
	for {
		reqs, batch, err := codec.readBatch()
		if err != nil {
			return
		}
		if batch {
			h.handleBatch(reqs)
		} else {
			h.handleMsg(reqs[0])
		}
	}
}
