//go:build verif

package pathdb

// White-box accessors for the idxsim engine (property C19). Added through
// go build -overlay, never part of the shipped tree. They only wrap the
// unexported history-index structures; they add symbols and change no behaviour.

import (
	"github.com/ethereum/go-ethereum/common"
	"github.com/ethereum/go-ethereum/ethdb"
	"github.com/ethereum/go-ethereum/log"
)

// VerifIdxIdent names one indexed state element. Typ: 0 account, 1 storage slot,
// 2 trie node (same numbering as elementType).
type VerifIdxIdent struct {
	Typ   int
	Owner common.Hash
	Slot  common.Hash
	Path  string
}

func (v VerifIdxIdent) ident() stateIdent {
	switch elementType(v.Typ) {
	case typeAccount:
		return newAccountIdent(v.Owner)
	case typeStorage:
		return newStorageIdent(v.Owner, v.Slot)
	default:
		return newTrienodeIdent(v.Owner, v.Path)
	}
}

// BitmapSize is the extension bitmap size the tree under test derives for the
// element (0: elements carry no extension).
func (v VerifIdxIdent) BitmapSize() int { return v.ident().bloomSize() }

// HistoryType is the history type the element belongs to (0 state, 1 trienode).
func (v VerifIdxIdent) HistoryType() int { return int(toHistoryType(elementType(v.Typ))) }

// Constants of the block format, so that the harness can aim at boundaries.
const (
	VerifIdxBlockMaxSize = indexBlockMaxSize
	VerifIdxRestartLen   = indexBlockRestartLen
	VerifIdxDescSize     = indexBlockDescSize
)

// ---- writer

type VerifIdxWriter struct{ w *indexWriter }

func VerifIdxNewWriter(db ethdb.KeyValueReader, id VerifIdxIdent, limit uint64) (*VerifIdxWriter, error) {
	st := id.ident()
	w, err := newIndexWriter(db, st, limit, st.bloomSize())
	if err != nil {
		return nil, err
	}
	return &VerifIdxWriter{w}, nil
}

func (w *VerifIdxWriter) Append(id uint64, ext []uint16) error { return w.w.append(id, ext) }
func (w *VerifIdxWriter) Finish(batch ethdb.Batch)             { w.w.finish(batch) }
func (w *VerifIdxWriter) LastID() uint64                       { return w.w.lastID }

// Live returns (entries, data bytes) of the live block writer.
func (w *VerifIdxWriter) Live() (int, int) { return int(w.w.bw.desc.entries), len(w.w.bw.data) }

// ---- deleter

type VerifIdxDeleter struct{ d *indexDeleter }

func VerifIdxNewDeleter(db ethdb.KeyValueReader, id VerifIdxIdent, limit uint64) (*VerifIdxDeleter, error) {
	st := id.ident()
	d, err := newIndexDeleter(db, st, limit, st.bloomSize())
	if err != nil {
		return nil, err
	}
	return &VerifIdxDeleter{d}, nil
}

func (d *VerifIdxDeleter) Pop(id uint64) error      { return d.d.pop(id) }
func (d *VerifIdxDeleter) Finish(batch ethdb.Batch) { d.d.finish(batch) }
func (d *VerifIdxDeleter) Empty() bool              { return d.d.empty() }
func (d *VerifIdxDeleter) LastID() uint64           { return d.d.lastID }
func (d *VerifIdxDeleter) Live() (int, int)         { return int(d.d.bw.desc.entries), len(d.d.bw.data) }

// ---- reader / iterators

type VerifIdxReader struct{ r *indexReader }

func VerifIdxNewReader(db ethdb.KeyValueReader, id VerifIdxIdent) (*VerifIdxReader, error) {
	st := id.ident()
	r, err := newIndexReader(db, st, st.bloomSize())
	if err != nil {
		return nil, err
	}
	return &VerifIdxReader{r}, nil
}

func (r *VerifIdxReader) ReadGreaterThan(id uint64) (uint64, error) { return r.r.readGreaterThan(id) }
func (r *VerifIdxReader) Refresh() error                            { return r.r.refresh() }

// Iterator returns the index iterator; filter < 0 means no extension filter.
func (r *VerifIdxReader) Iterator(filter int) HistoryIndexIterator {
	if filter < 0 {
		return r.r.newIterator(nil)
	}
	f := extFilter(uint16(filter))
	return r.r.newIterator(&f)
}

// ---- descriptors

type VerifIdxDesc struct {
	Max     uint64
	Entries int
	ID      uint32
	Bitmap  []byte
}

// VerifIdxDescs parses the stored descriptor list of the element.
func VerifIdxDescs(db ethdb.KeyValueReader, id VerifIdxIdent) ([]VerifIdxDesc, error) {
	st := id.ident()
	list, err := loadIndexData(db, st, st.bloomSize())
	if err != nil {
		return nil, err
	}
	out := make([]VerifIdxDesc, 0, len(list))
	for _, d := range list {
		out = append(out, VerifIdxDesc{Max: d.max, Entries: int(d.entries), ID: d.id, Bitmap: common.CopyBytes(d.extBitmap)})
	}
	return out, nil
}

// VerifIdxBlockElems decodes one stored index block with the block reader and
// returns its elements (full traversal with Next).
func VerifIdxBlockElems(db ethdb.KeyValueReader, id VerifIdxIdent, block uint32) ([]uint64, error) {
	st := id.ident()
	br, err := newBlockReader(readStateIndexBlock(st, db, block), st.bloomSize() != 0)
	if err != nil {
		return nil, err
	}
	it := br.newIterator(nil)
	var out []uint64
	for it.Next() {
		out = append(out, it.ID())
	}
	return out, it.Error()
}

// ---- pruner

// VerifIdxPrune runs one synchronous pass of the index pruner (the body of the
// background loop, without the goroutine and without the 90000-id threshold)
// for the given history type.
func VerifIdxPrune(disk ethdb.KeyValueStore, historyTyp int, tail uint64) error {
	p := &indexPruner{
		disk:     disk,
		typ:      historyType(historyTyp),
		trigger:  make(chan struct{}, 1),
		closed:   make(chan struct{}),
		log:      log.New("type", historyType(historyTyp).String()),
		pauseReq: make(chan chan struct{}),
		resumeCh: make(chan struct{}),
	}
	return p.process(tail)
}
