//go:build verif

package pathdb

import (
	"fmt"
	"sort"

	"github.com/ethereum/go-ethereum/common"
	"github.com/ethereum/go-ethereum/core/rawdb"
)

// White-box accessors for the pathdbsim verification engine (added through
// go build -overlay, never part of the shipped tree). They add symbols only.

// VerifSetMaxDiffLayers sets the package-level knob (a `var` in the tree under
// test) and returns the previous value.
func VerifSetMaxDiffLayers(n int) int {
	old := maxDiffLayers
	maxDiffLayers = n
	return old
}

// VerifWaitFlush blocks until the frozen buffer of the current disk layer (if
// any) has been flushed and returns the flush error.
func (db *Database) VerifWaitFlush() error {
	return db.tree.bottom().waitFlush()
}

// VerifDiskInfo describes the bottom layer.
type VerifDiskInfo struct {
	Root         common.Hash
	ID           uint64
	BufferLayers uint64
	BufferSize   uint64
	Frozen       bool
	Stale        bool
}

func (db *Database) VerifDisk() VerifDiskInfo {
	dl := db.tree.bottom()
	dl.lock.RLock()
	defer dl.lock.RUnlock()
	return VerifDiskInfo{Root: dl.root, ID: dl.id, BufferLayers: dl.buffer.layers, BufferSize: dl.buffer.size(), Frozen: dl.frozen != nil, Stale: dl.stale}
}

// VerifLayers returns root -> (state id, parent root) of every layer in the tree,
// sorted by root. The disk layer has parent == its own root.
type VerifLayer struct {
	Root, Parent common.Hash
	ID           uint64
	Disk         bool
}

func (db *Database) VerifLayers() []VerifLayer {
	var out []VerifLayer
	db.tree.forEach(func(l layer) {
		v := VerifLayer{Root: l.rootHash(), ID: l.stateID()}
		if p := l.parentLayer(); p != nil {
			v.Parent = p.rootHash()
		} else {
			v.Parent, v.Disk = l.rootHash(), true
		}
		out = append(out, v)
	})
	sort.Slice(out, func(i, j int) bool { return string(out[i].Root[:]) < string(out[j].Root[:]) })
	return out
}

// VerifBinaryAccountIterator opens the binary (non-merged) account iterator at root.
func (db *Database) VerifBinaryAccountIterator(root, seek common.Hash) (AccountIterator, error) {
	switch l := db.tree.get(root).(type) {
	case *diffLayer:
		return l.newBinaryAccountIterator(seek), nil
	case *diskLayer:
		return l.newBinaryAccountIterator(seek), nil
	}
	return nil, fmt.Errorf("unknown layer: %x", root)
}

// VerifBinaryStorageIterator opens the binary (non-merged) storage iterator at root.
func (db *Database) VerifBinaryStorageIterator(root, account, seek common.Hash) (StorageIterator, error) {
	switch l := db.tree.get(root).(type) {
	case *diffLayer:
		return l.newBinaryStorageIterator(account, seek), nil
	case *diskLayer:
		return l.newBinaryStorageIterator(account, seek), nil
	}
	return nil, fmt.Errorf("unknown layer: %x", root)
}

// VerifHistory reports (tail, head) of the state and trienode history freezers
// (ok=false when the freezer is absent).
func (db *Database) VerifHistory() (stail, shead uint64, sok bool, ttail, thead uint64, tok bool) {
	if db.stateFreezer != nil {
		sok = true
		shead, _ = db.stateFreezer.Ancients()
		stail, _ = db.stateFreezer.Tail(rawdb.DefaultHistoryGroup)
	}
	if db.trienodeFreezer != nil {
		tok = true
		thead, _ = db.trienodeFreezer.Ancients()
		ttail, _ = db.trienodeFreezer.Tail(rawdb.DefaultHistoryGroup)
	}
	return
}

// VerifHistoryMeta returns (parent, root) recorded in state history id.
func (db *Database) VerifHistoryMeta(id uint64) (parent, root common.Hash, err error) {
	if db.stateFreezer == nil {
		return common.Hash{}, common.Hash{}, fmt.Errorf("no state freezer")
	}
	m, err := readStateHistoryMeta(db.stateFreezer, id)
	if err != nil {
		return common.Hash{}, common.Hash{}, err
	}
	return m.parent, m.root, nil
}

// VerifIndexerState reports whether the state / trienode history indexers exist
// and have finished their initial indexing.
func (db *Database) VerifIndexerState() (state, stateInited, trienode, trienodeInited bool) {
	if db.stateIndexer != nil {
		state, stateInited = true, db.stateIndexer.inited()
	}
	if db.trienodeIndexer != nil {
		trienode, trienodeInited = true, db.trienodeIndexer.inited()
	}
	return
}

// VerifReadOnly reports the read-only flag (set by Journal).
func (db *Database) VerifReadOnly() bool {
	db.lock.RLock()
	defer db.lock.RUnlock()
	return db.readOnly
}
