//go:build verif

package pathdb

import "fmt"

// VerifChainsimSetMaxDiffLayers sets the package-level diff-layer cap (a tuning
// variable of the tree under test) and returns the previous value.
func VerifChainsimSetMaxDiffLayers(n int) int {
	old := maxDiffLayers
	maxDiffLayers = n
	return old
}

// VerifChainsimLayers describes the layer tree (debugging / classification aid).
func (db *Database) VerifChainsimLayers() (desc string) {
	db.tree.lock.RLock()
	defer db.tree.lock.RUnlock()
	desc = fmt.Sprintf("base=%x id=%d waitSync=%v layers=%d:", db.tree.base.rootHash().Bytes()[:4], db.tree.base.stateID(), db.waitSync, len(db.tree.layers))
	for r := range db.tree.layers {
		desc += fmt.Sprintf(" %x", r.Bytes()[:4])
	}
	return desc
}

// VerifChainsimBase returns the root of the disk layer and the number of layers in the tree.
func (db *Database) VerifChainsimBase() (root [32]byte, layers int) {
	db.tree.lock.RLock()
	defer db.tree.lock.RUnlock()
	return db.tree.base.rootHash(), len(db.tree.layers)
}
