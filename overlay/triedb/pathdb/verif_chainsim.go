//go:build verif

package pathdb

// VerifChainsimSetMaxDiffLayers sets the package-level diff-layer cap (a tuning
// variable of the tree under test) and returns the previous value.
func VerifChainsimSetMaxDiffLayers(n int) int {
	old := maxDiffLayers
	maxDiffLayers = n
	return old
}
