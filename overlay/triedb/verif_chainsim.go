//go:build verif

package triedb

import "github.com/ethereum/go-ethereum/triedb/pathdb"

// VerifChainsimPathDB returns the path-scheme backend (nil for the hash scheme).
func (db *Database) VerifChainsimPathDB() *pathdb.Database {
	p, _ := db.backend.(*pathdb.Database)
	return p
}
