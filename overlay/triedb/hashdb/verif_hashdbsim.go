//go:build verif

package hashdb

// White-box accessors for the hashdbsim engine (property C21). Added through
// go build -overlay, never part of the shipped tree; they read unexported state
// and change no behaviour.

import (
	"bytes"
	"sort"

	"github.com/ethereum/go-ethereum/common"
)

// VerifNode is one entry of the dirty cache.
type VerifNode struct {
	Hash     common.Hash
	Blob     []byte // the cached blob (not copied; treat as read-only)
	Parents  uint32
	External []common.Hash // sorted
}

// VerifState is a consistent copy of the unexported bookkeeping.
type VerifState struct {
	Nodes          []VerifNode // sorted by hash
	Oldest, Newest common.Hash
	DirtiesSize    uint64
	ChildrenSize   uint64
	CachedNodeSize int
}

func (db *Database) VerifState() VerifState {
	db.lock.RLock()
	defer db.lock.RUnlock()

	st := VerifState{
		Oldest: db.oldest, Newest: db.newest,
		DirtiesSize: uint64(db.dirtiesSize), ChildrenSize: uint64(db.childrenSize),
		CachedNodeSize: cachedNodeSize,
	}
	for h, n := range db.dirties {
		vn := VerifNode{Hash: h, Blob: n.node, Parents: n.parents}
		for c := range n.external {
			vn.External = append(vn.External, c)
		}
		sort.Slice(vn.External, func(i, j int) bool { return bytes.Compare(vn.External[i][:], vn.External[j][:]) < 0 })
		st.Nodes = append(st.Nodes, vn)
	}
	sort.Slice(st.Nodes, func(i, j int) bool { return bytes.Compare(st.Nodes[i].Hash[:], st.Nodes[j].Hash[:]) < 0 })
	return st
}

// VerifFlushList walks the flush-list from the oldest entry (at most max steps).
func (db *Database) VerifFlushList(max int) []common.Hash {
	db.lock.RLock()
	defer db.lock.RUnlock()

	var out []common.Hash
	for h := db.oldest; h != (common.Hash{}) && len(out) < max; {
		out = append(out, h)
		n := db.dirties[h]
		if n == nil {
			break
		}
		h = n.flushNext
	}
	return out
}

// VerifDirty reports whether the hash is in the dirty cache.
func (db *Database) VerifDirty(h common.Hash) bool {
	db.lock.RLock()
	defer db.lock.RUnlock()
	_, ok := db.dirties[h]
	return ok
}
