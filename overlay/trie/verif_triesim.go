//go:build verif

package trie

// VerifQueueLen returns the number of scheduled requests not yet handed out by
// Missing (read-only accessor for the triesim harness: lets it tell "queue empty"
// from "Missing throttled by the per-depth limit").
func (s *Sync) VerifQueueLen() int { return s.queue.Size() }

// VerifFetches returns a copy of the per-depth in-flight counters.
func (s *Sync) VerifFetches() map[int]int {
	out := make(map[int]int, len(s.fetches))
	for k, v := range s.fetches {
		out[k] = v
	}
	return out
}
