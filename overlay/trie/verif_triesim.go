//go:build verif

package trie

// VerifQueueLen returns the number of scheduled requests not yet handed out by
// Missing (read-only accessor for the triesim harness: lets it tell "queue empty"
// from "Missing throttled by the per-depth limit").
func (s *Sync) VerifQueueLen() int { return s.queue.Size() }
