//go:build verif

package trie

// VerifSetMaxFetchesPerDepth sets the per-depth throttle of trie.Sync (a constant in the shipped
// tree, turned into a variable by tools/tunerewrite through the build overlay) and returns the old
// value, so that the simulator can run the throttle path with small states.
func VerifSetMaxFetchesPerDepth(n int) int {
	old := maxFetchesPerDepth
	maxFetchesPerDepth = n
	return old
}
