//go:build verif

package core

import (
	"sync/atomic"

	"github.com/ethereum/go-ethereum/common"
	"github.com/ethereum/go-ethereum/core/state"
	"github.com/ethereum/go-ethereum/core/types"
	"github.com/ethereum/go-ethereum/params"
)

// White-box accessors for sim/execsim (added through go build -overlay, never part of
// the shipped tree). They add symbols and change no behaviour.

// VerifExecsimSetupState returns the state instance BlockChain.ProcessBlock would
// execute the block on (for access-list driven execution: shared cached reader plus
// access-list-hint prefetcher), and the clean-up that ProcessBlock defers.
func (bc *BlockChain) VerifExecsimSetupState(parentRoot common.Hash, block *types.Block, wantWitness bool) (*state.StateDB, func(), error) {
	var (
		interrupt atomic.Bool
		execIndex atomic.Int64
	)
	execIndex.Store(-1)
	statedb, cleanup, err := bc.setupExecutionState(parentRoot, block, ExecuteConfig{MakeWitness: wantWitness}, &interrupt, &execIndex)
	if err != nil {
		return nil, nil, err
	}
	return statedb, func() { interrupt.Store(true); cleanup(nil) }, nil
}

// VerifExecsimUsesAccessList reports whether ProcessBlock would take the
// access-list driven parallel path for this block.
func (bc *BlockChain) VerifExecsimUsesAccessList(block *types.Block, wantWitness bool) bool {
	return bc.useBALExecution(block, wantWitness)
}

// VerifExecsimFits reports whether a transaction with the given gas limit passes the
// block gas pool inclusion check at this point of block generation.
func (b *BlockGen) VerifExecsimFits(gasLimit uint64) bool {
	if b.gasPool == nil {
		return true
	}
	if b.cm.config.IsAmsterdam(b.header.Number, b.header.Time) {
		return b.gasPool.CheckGasAmsterdam(min(gasLimit, params.MaxTxGas), gasLimit) == nil
	}
	return b.gasPool.Gas() >= gasLimit
}
