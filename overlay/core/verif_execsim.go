//go:build verif

package core

import (
	"context"

	"github.com/ethereum/go-ethereum/common"
	"github.com/ethereum/go-ethereum/common/lru"
	"github.com/ethereum/go-ethereum/consensus/beacon"
	"github.com/ethereum/go-ethereum/consensus/ethash"
	"github.com/ethereum/go-ethereum/core/state"
	"github.com/ethereum/go-ethereum/core/stateless"
	"github.com/ethereum/go-ethereum/core/types"
	"github.com/ethereum/go-ethereum/core/vm"
	"github.com/ethereum/go-ethereum/params"
	"github.com/ethereum/go-ethereum/trie"
	"github.com/ethereum/go-ethereum/triedb"
)

// White-box accessors for sim/execsim (added through go build -overlay, never part of
// the shipped tree). They add symbols and change no behaviour.

// VerifExecsimUsesAccessList reports whether ProcessBlock would take the
// access-list driven parallel path for this block.
func (bc *BlockChain) VerifExecsimUsesAccessList(block *types.Block, wantWitness bool) bool {
	return bc.useBALExecution(block, wantWitness)
}

// VerifExecsimFits reports whether a transaction with the given gas limit passes the
// block gas pool inclusion check at this point of block generation.
func (b *BlockGen) VerifExecsimFits(gasLimit uint64) bool {
	if b.gasPool == nil {
		return true
	}
	if b.cm.config.IsAmsterdam(b.header.Number, b.header.Time) {
		return b.gasPool.CheckGasAmsterdam(min(gasLimit, params.MaxTxGas), gasLimit) == nil
	}
	return b.gasPool.Gas() >= gasLimit
}

// VerifExecsimStatelessDBError repeats the steps of ExecuteStateless on the given witness and
// returns what ExecuteStateless computes plus the error recorded on the state database during
// execution (which ExecuteStateless itself does not look at). Used only to classify a result
// that the real ExecuteStateless already produced; never as the system under test.
func VerifExecsimStatelessDBError(ctx context.Context, config *params.ChainConfig, vmconfig vm.Config, block *types.Block, witness *stateless.Witness) (stateRoot, receiptRoot common.Hash, dbErr error, err error) {
	memdb := witness.MakeHashDB()
	db, err := state.New(witness.Root(), state.NewDatabase(triedb.NewDatabase(memdb, triedb.HashDefaults), state.NewCodeDB(memdb)))
	if err != nil {
		return common.Hash{}, common.Hash{}, nil, err
	}
	chain := &HeaderChain{
		config:      config,
		chainDb:     memdb,
		headerCache: lru.NewCache[common.Hash, *types.Header](256),
		engine:      beacon.New(ethash.NewFaker()),
	}
	res, err := NewStateProcessor(chain).Process(ctx, block, db, nil, nil, vmconfig, nil)
	if err != nil {
		return common.Hash{}, common.Hash{}, db.Error(), err
	}
	if err = NewBlockValidator(config, nil).ValidateState(block, db, res, true); err != nil {
		return common.Hash{}, common.Hash{}, db.Error(), err
	}
	receiptRoot = types.DeriveSha(res.Receipts, trie.NewStackTrie(nil))
	stateRoot = db.IntermediateRoot(config.Rules(block.Number(), block.Difficulty().Sign() == 0, block.Time()))
	return stateRoot, receiptRoot, db.Error(), nil
}
