//go:build verif

package snapshot

import (
	"fmt"

	"github.com/ethereum/go-ethereum/common"
)

// White-box accessors for the pathdbsim verification engine (C22, legacy
// snapshot tree). They add symbols only.

// VerifBinaryAccountIterator opens the binary (non-merged) account iterator at
// root; on the disk layer it is the plain disk iterator.
func (t *Tree) VerifBinaryAccountIterator(root, seek common.Hash) (AccountIterator, error) {
	switch l := t.Snapshot(root).(type) {
	case *diffLayer:
		return l.newBinaryAccountIterator(seek), nil
	case *diskLayer:
		return l.AccountIterator(seek), nil
	}
	return nil, fmt.Errorf("unknown snapshot: %x", root)
}

// VerifBinaryStorageIterator opens the binary (non-merged) storage iterator at root.
func (t *Tree) VerifBinaryStorageIterator(root, account, seek common.Hash) (StorageIterator, error) {
	switch l := t.Snapshot(root).(type) {
	case *diffLayer:
		return l.newBinaryStorageIterator(account, seek), nil
	case *diskLayer:
		return l.StorageIterator(account, seek), nil
	}
	return nil, fmt.Errorf("unknown snapshot: %x", root)
}

// VerifLayerRoots returns root -> isDisk of every layer in the tree.
func (t *Tree) VerifLayerRoots() map[common.Hash]bool {
	t.lock.RLock()
	defer t.lock.RUnlock()
	out := make(map[common.Hash]bool, len(t.layers))
	for r, l := range t.layers {
		_, disk := l.(*diskLayer)
		out[r] = disk
	}
	return out
}
