//go:build verif

package state

import (
	"github.com/ethereum/go-ethereum/common"
	"github.com/ethereum/go-ethereum/core/rawdb"
)

// White-box accessor for the verification harness (added through go build
// -overlay, never part of the shipped tree). It adds a symbol and changes no
// behaviour.

// VerifSplitReaders returns the individual readers that Reader(root) aggregates
// behind a fallback chain: the flat-state reader (legacy snapshot tree in hash
// scheme, path database in path scheme; nil if none is available) and the
// trie reader, each combined with the code reader. They are built with the same
// constructors StateReader uses.
func (db *MPTDatabase) VerifSplitReaders(stateRoot common.Hash) (flat Reader, trie Reader, err error) {
	if db.TrieDB().Scheme() == rawdb.HashScheme && db.snap != nil {
		if snap := db.snap.Snapshot(stateRoot); snap != nil {
			flat = newReader(db.codedb.Reader(), newFlatReader(snap))
		}
	}
	if db.TrieDB().Scheme() == rawdb.PathScheme {
		if r, e := db.triedb.StateReader(stateRoot); e == nil {
			flat = newReader(db.codedb.Reader(), newFlatReader(r))
		}
	}
	tr, err := newMPTTrieReader(stateRoot, db.triedb)
	if err != nil {
		return nil, nil, err
	}
	return flat, newReader(db.codedb.Reader(), tr), nil
}
