//go:build verif

package blobpool

import (
	"sort"

	"github.com/ethereum/go-ethereum/common"
	"github.com/ethereum/go-ethereum/crypto"
	"github.com/ethereum/go-ethereum/params"
	"github.com/ethereum/go-ethereum/rlp"
	"github.com/holiman/billy"
	"github.com/holiman/uint256"
)

// White-box accessors for the verification harness (poolsim, C42). Added through
// go build -overlay. They read pool state under the pool's own lock; the store
// wrapper forwards every call unchanged and only reports Put/Delete to the
// harness (which may answer a Put with an injected I/O error: the store is the
// disk seam).

// VerifStoreHook is called around every mutation of the queue store ("queue")
// and the limbo store ("limbo"). phase 0 = before the call (a non-nil error is
// returned to the pool instead of performing the call), phase 1 = after a
// successful call (for a Put the entry describes what was stored and where).
type VerifStoreHook func(store, op string, phase int, e VerifStoreEntry) error

type verifStore struct {
	billy.Database
	name string
	hook VerifStoreHook
}

func (s *verifStore) Put(data []byte) (uint64, error) {
	if err := s.hook(s.name, "put", 0, VerifStoreEntry{}); err != nil {
		return 0, err
	}
	id, err := s.Database.Put(data)
	if err == nil {
		var e VerifStoreEntry
		if s.name == "limbo" {
			e = decodeLimboEntry(id, s.Database.Size(id), data)
		} else {
			e = decodeQueueEntry(id, s.Database.Size(id), data, false)
		}
		s.hook(s.name, "put", 1, e)
	}
	return id, err
}

func (s *verifStore) Delete(id uint64) error {
	if err := s.hook(s.name, "delete", 0, VerifStoreEntry{ID: id}); err != nil {
		return err
	}
	err := s.Database.Delete(id)
	if err == nil {
		s.hook(s.name, "delete", 1, VerifStoreEntry{ID: id})
	}
	return err
}

// VerifWrapStores interposes the observer on both billy handles (after Init).
func (p *BlobPool) VerifWrapStores(hook VerifStoreHook) {
	p.lock.Lock()
	defer p.lock.Unlock()
	if _, ok := p.store.(*verifStore); !ok {
		p.store = &verifStore{Database: p.store, name: "queue", hook: hook}
	}
	if p.limbo != nil {
		if _, ok := p.limbo.store.(*verifStore); !ok {
			p.limbo.store = &verifStore{Database: p.limbo.store, name: "limbo", hook: hook}
		}
	}
}

// VerifMeta is a copy of one blobTxMeta.
type VerifMeta struct {
	Hash        common.Hash
	VHashes     []common.Hash
	ID          uint64
	StorageSize uint32
	Size        uint64
	Nonce       uint64
	CostCap     *uint256.Int
	ExecTipCap  *uint256.Int
	ExecFeeCap  *uint256.Int
	BlobFeeCap  *uint256.Int
	ExecGas     uint64
	BlobGas     uint64

	BasefeeJumps float64
	BlobfeeJumps float64

	EvictionExecTip      *uint256.Int
	EvictionExecFeeJumps float64
	EvictionBlobFeeJumps float64
	Announced            bool
}

type VerifAccount struct {
	Addr  common.Address
	Txs   []VerifMeta
	Spent *uint256.Int
}

type VerifLimboEntry struct {
	ID     uint64
	TxHash common.Hash
	Block  uint64
}

// VerifBPSnapshot is a consistent copy of the pool internals.
type VerifBPSnapshot struct {
	Accounts  []VerifAccount // sorted by address; order of Txs as in the index
	SpentOnly []common.Address // addresses with a spent entry but no index entry
	Stored    uint64
	Datacap   uint64
	PriceBump uint64
	GasTip    *uint256.Int

	Lookup    map[common.Hash]uint64        // tx hash -> store id
	BlobIndex map[common.Hash][]common.Hash // vhash -> tx hashes

	HeapAddrs        []common.Address
	HeapIndex        map[common.Address]int
	HeapBasefeeJumps float64
	HeapBlobfeeJumps float64

	Limbo       []VerifLimboEntry // from limbo.index/groups
	LimboGroups int               // number of (block,id) pairs in limbo.groups

	Gapped map[common.Address][]common.Hash

	HeadNumber uint64
	HeadHash   common.Hash
}

func u256(v *uint256.Int) *uint256.Int {
	if v == nil {
		return nil
	}
	return new(uint256.Int).Set(v)
}

func (p *BlobPool) VerifSnapshot() *VerifBPSnapshot {
	p.lock.RLock()
	defer p.lock.RUnlock()

	s := &VerifBPSnapshot{
		Stored: p.stored, Datacap: p.config.Datacap, PriceBump: p.config.PriceBump, GasTip: u256(p.gasTip.Load()),
		Lookup: make(map[common.Hash]uint64), BlobIndex: make(map[common.Hash][]common.Hash),
		HeapIndex: make(map[common.Address]int), Gapped: make(map[common.Address][]common.Hash),
	}
	if h := p.head.Load(); h != nil {
		s.HeadNumber, s.HeadHash = h.Number.Uint64(), h.Hash()
	}
	for addr, txs := range p.index {
		acc := VerifAccount{Addr: addr, Spent: u256(p.spent[addr])}
		for _, m := range txs {
			acc.Txs = append(acc.Txs, VerifMeta{
				Hash: m.hash, VHashes: append([]common.Hash{}, m.vhashes...), ID: m.id, StorageSize: m.storageSize, Size: m.size, Nonce: m.nonce,
				CostCap: u256(m.costCap), ExecTipCap: u256(m.execTipCap), ExecFeeCap: u256(m.execFeeCap), BlobFeeCap: u256(m.blobFeeCap),
				ExecGas: m.execGas, BlobGas: m.blobGas, BasefeeJumps: m.basefeeJumps, BlobfeeJumps: m.blobfeeJumps,
				EvictionExecTip: u256(m.evictionExecTip), EvictionExecFeeJumps: m.evictionExecFeeJumps, EvictionBlobFeeJumps: m.evictionBlobFeeJumps,
				Announced: m.announced,
			})
		}
		s.Accounts = append(s.Accounts, acc)
	}
	sort.Slice(s.Accounts, func(i, j int) bool { return s.Accounts[i].Addr.Cmp(s.Accounts[j].Addr) < 0 })
	for addr := range p.spent {
		if _, ok := p.index[addr]; !ok {
			s.SpentOnly = append(s.SpentOnly, addr)
		}
	}
	for h, m := range p.lookup.txIndex {
		s.Lookup[h] = m.id
	}
	for vh, txs := range p.lookup.blobIndex {
		var l []common.Hash
		for h := range txs {
			l = append(l, h)
		}
		sort.Slice(l, func(i, j int) bool { return l[i].Cmp(l[j]) < 0 })
		s.BlobIndex[vh] = l
	}
	if p.evict != nil {
		s.HeapAddrs = append([]common.Address{}, p.evict.addrs...)
		for a, i := range p.evict.index {
			s.HeapIndex[a] = i
		}
		s.HeapBasefeeJumps, s.HeapBlobfeeJumps = p.evict.basefeeJumps, p.evict.blobfeeJumps
	}
	if p.limbo != nil {
		byID := map[uint64]uint64{}
		for block, ids := range p.limbo.groups {
			for id := range ids {
				byID[id] = block
				s.LimboGroups++
			}
		}
		for h, id := range p.limbo.index {
			e := VerifLimboEntry{ID: id, TxHash: h, Block: ^uint64(0)}
			if b, ok := byID[id]; ok && p.limbo.groups[b][id] == h {
				e.Block = b
			}
			s.Limbo = append(s.Limbo, e)
		}
		sort.Slice(s.Limbo, func(i, j int) bool { return s.Limbo[i].TxHash.Cmp(s.Limbo[j].TxHash) < 0 })
	}
	for addr, txs := range p.gapped {
		for _, ptx := range txs {
			s.Gapped[addr] = append(s.Gapped[addr], ptx.Tx.Hash())
		}
	}
	return s
}

// VerifStoreEntry is one physical entry of a billy store.
type VerifStoreEntry struct {
	ID    uint64
	Size  uint32 // slot size
	Data  []byte // queue store: the stored RLP (BlobTxForPool); limbo: nil
	Hash  common.Hash
	Block uint64 // limbo only
	Bad   bool   // entry did not decode
}

// txHashOfStored returns the hash of the transaction inside a stored
// BlobTxForPool RLP without decoding the cell payload: the first list element is
// the typed-transaction byte string whose keccak is the transaction hash.
func txHashOfStored(data []byte) (common.Hash, bool) {
	elems, err := rlp.SplitListValues(data)
	if err != nil || len(elems) < 2 {
		return common.Hash{}, false
	}
	content, _, err := rlp.SplitString(elems[0])
	if err != nil || len(content) < 2 || content[0] != 3 {
		return common.Hash{}, false
	}
	return crypto.Keccak256Hash(content), true
}

func decodeQueueEntry(id uint64, size uint32, data []byte, keep bool) VerifStoreEntry {
	e := VerifStoreEntry{ID: id, Size: size}
	h, ok := txHashOfStored(data)
	if !ok {
		e.Bad = true
		return e
	}
	e.Hash = h
	if keep {
		e.Data = append([]byte{}, data...)
	}
	return e
}

func decodeLimboEntry(id uint64, size uint32, data []byte) VerifStoreEntry {
	e := VerifStoreEntry{ID: id, Size: size}
	elems, err := rlp.SplitListValues(data)
	if err != nil || len(elems) < 3 {
		e.Bad = true
		return e
	}
	hb, _, err := rlp.SplitString(elems[0])
	if err != nil || len(hb) != 32 {
		e.Bad = true
		return e
	}
	e.Hash = common.BytesToHash(hb)
	blk, _, err := rlp.SplitUint64(elems[1])
	if err != nil {
		e.Bad = true
		return e
	}
	e.Block = blk
	if h, ok := txHashOfStored(elems[2]); !ok || h != e.Hash {
		e.Bad = true
	}
	return e
}

// VerifLiveEntries lists what the two open stores currently hold (deleted slots
// excluded), read through billy's own iterator.
func (p *BlobPool) VerifLiveEntries() (queue, limbo []VerifStoreEntry, err error) {
	p.lock.RLock()
	defer p.lock.RUnlock()
	err = p.store.Iterate(func(id uint64, size uint32, data []byte) {
		if size == 8 {
			return // slotter version marker shelf
		}
		queue = append(queue, decodeQueueEntry(id, size, data, false))
	})
	if err != nil {
		return nil, nil, err
	}
	if p.limbo != nil {
		err = p.limbo.store.Iterate(func(id uint64, size uint32, data []byte) {
			if size == 8 {
				return
			}
			limbo = append(limbo, decodeLimboEntry(id, size, data))
		})
	}
	return queue, limbo, err
}

// VerifReadImage enumerates the entries physically present in a copy of a pool
// data directory (read-only; what a restart would find before Init's clean-up).
func VerifReadImage(datadir string) (queue, limbo []VerifStoreEntry, err error) {
	read := func(dir string, f func(id uint64, size uint32, data []byte)) error {
		db, err := billy.Open(billy.Options{Path: dir, Readonly: true}, newSlotterEIP7594(params.BlobTxMaxBlobs), f)
		if err != nil {
			return err
		}
		return db.Close()
	}
	if err = read(datadir+"/"+pendingTransactionStore, func(id uint64, size uint32, data []byte) {
		queue = append(queue, decodeQueueEntry(id, size, data, true))
	}); err != nil {
		return nil, nil, err
	}
	err = read(datadir+"/"+limboedTransactionStore, func(id uint64, size uint32, data []byte) {
		limbo = append(limbo, decodeLimboEntry(id, size, data))
	})
	return queue, limbo, err
}

// VerifLimboGet reads a limbo entry back and reports the hash of the transaction
// it carries and whether its blobs can be recovered from the stored cells.
func (p *BlobPool) VerifLimboGet(tx common.Hash) (found bool, carried common.Hash, block uint64, cells int, err error) {
	p.lock.RLock()
	defer p.lock.RUnlock()
	id, ok := p.limbo.index[tx]
	if !ok {
		return false, common.Hash{}, 0, 0, nil
	}
	data, err := p.limbo.store.Get(id)
	if err != nil {
		return true, common.Hash{}, 0, 0, err
	}
	item := new(limboBlob)
	if err := rlp.DecodeBytes(data, item); err != nil {
		return true, common.Hash{}, 0, 0, err
	}
	return true, item.Ptx.Tx.Hash(), item.Block, len(item.Ptx.CellSidecar.Cells), nil
}

// VerifPriority exposes the pool's own priority function (used by the harness
// only to report both values when its reference disagrees).
func VerifPriority(basefeeJumps, txBasefeeJumps, blobfeeJumps, txBlobfeeJumps float64) int {
	return evictionPriority(basefeeJumps, txBasefeeJumps, blobfeeJumps, txBlobfeeJumps)
}

const (
	VerifMaxTxsPerAccount = maxTxsPerAccount
	VerifBlobSize         = blobSize
)
