//go:build verif

package legacypool

import (
	"sort"
	"time"

	"github.com/ethereum/go-ethereum/common"
	"github.com/holiman/uint256"
)

// White-box accessors for the verification harness (poolsim, C41). Added through
// go build -overlay; they only read pool state under the pool's own lock and add
// symbols, they change no behaviour.

// VerifList is a read-only view of one per-account transaction list.
type VerifList struct {
	Addr      common.Address
	Nonces    []uint64      // ascending
	Hashes    []common.Hash // parallel to Nonces
	TotalCost *uint256.Int  // list.totalcost as tracked by the pool
	SumCost   *uint256.Int  // recomputed sum of tx.Cost() over the items (nil on overflow)
	IndexLen  int           // length of the nonce heap index (must equal the item count)
	Strict    bool
}

// VerifSnapshot is a consistent read-only copy of the pool internals.
type VerifSnapshot struct {
	Pending []VerifList // sorted by address
	Queued  []VerifList // sorted by address

	All      map[common.Hash]int // lookup index: hash -> numSlots(tx)
	AllSlots int                 // lookup.slots counter

	Urgent   []common.Hash // priced.urgent heap content (heap order)
	Floating []common.Hash // priced.floating heap content (heap order)
	Stales   int64

	Beats         map[common.Address]time.Time // queue heartbeats
	PendingNonces map[common.Address]uint64    // noncer view for every account with a list
	GasTip        *uint256.Int
	Config        Config
	HeadNumber    uint64
	HeadGasLimit  uint64
	HeadHash      common.Hash
	ChangesSince  int
}

func verifList(addr common.Address, l *list) VerifList {
	v := VerifList{Addr: addr, TotalCost: new(uint256.Int).Set(l.totalcost), Strict: l.strict, IndexLen: l.txs.index.Len()}
	nonces := make([]uint64, 0, len(l.txs.items))
	for n := range l.txs.items {
		nonces = append(nonces, n)
	}
	sort.Slice(nonces, func(i, j int) bool { return nonces[i] < nonces[j] })
	sum := new(uint256.Int)
	for _, n := range nonces {
		tx := l.txs.items[n]
		v.Nonces = append(v.Nonces, n)
		v.Hashes = append(v.Hashes, tx.Hash())
		if sum != nil {
			c, of := uint256.FromBig(tx.Cost())
			if of {
				sum = nil
			} else if _, of2 := sum.AddOverflow(sum, c); of2 {
				sum = nil
			}
		}
	}
	v.SumCost = sum
	return v
}

// VerifSnapshot copies the internal state under the pool lock.
func (pool *LegacyPool) VerifSnapshot() *VerifSnapshot {
	pool.mu.RLock()
	defer pool.mu.RUnlock()

	s := &VerifSnapshot{
		All:           make(map[common.Hash]int),
		Beats:         make(map[common.Address]time.Time),
		PendingNonces: make(map[common.Address]uint64),
		GasTip:        new(uint256.Int).Set(pool.gasTip.Load()),
		Config:        pool.config,
		ChangesSince:  pool.changesSinceReorg,
	}
	if h := pool.currentHead.Load(); h != nil {
		s.HeadNumber = h.Number.Uint64()
		s.HeadGasLimit = h.GasLimit
		s.HeadHash = h.Hash()
	}
	for addr, l := range pool.pending {
		s.Pending = append(s.Pending, verifList(addr, l))
		s.PendingNonces[addr] = pool.pendingNonces.get(addr)
	}
	for addr, l := range pool.queue.queued {
		s.Queued = append(s.Queued, verifList(addr, l))
		if _, ok := s.PendingNonces[addr]; !ok {
			s.PendingNonces[addr] = pool.pendingNonces.get(addr)
		}
	}
	sort.Slice(s.Pending, func(i, j int) bool { return s.Pending[i].Addr.Cmp(s.Pending[j].Addr) < 0 })
	sort.Slice(s.Queued, func(i, j int) bool { return s.Queued[i].Addr.Cmp(s.Queued[j].Addr) < 0 })
	for a, t := range pool.queue.beats {
		s.Beats[a] = t
	}
	pool.all.lock.RLock()
	for h, tx := range pool.all.txs {
		s.All[h] = numSlots(tx)
	}
	s.AllSlots = pool.all.slots
	pool.all.lock.RUnlock()

	pool.priced.reheapMu.Lock()
	for _, tx := range pool.priced.urgent.list {
		s.Urgent = append(s.Urgent, tx.Hash())
	}
	for _, tx := range pool.priced.floating.list {
		s.Floating = append(s.Floating, tx.Hash())
	}
	s.Stales = pool.priced.stales.Load()
	pool.priced.reheapMu.Unlock()
	return s
}

// VerifEvictionInterval exposes the package's eviction ticker period.
func VerifEvictionInterval() time.Duration { return evictionInterval }

// VerifNumSlots exposes numSlots.
const VerifTxSlotSize = txSlotSize
const VerifTxMaxSize = txMaxSize
