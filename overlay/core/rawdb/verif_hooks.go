//go:build verif

package rawdb

// White-box accessors for the verification harness (added through go build -overlay,
// never part of the shipped tree). They add symbols and change no behaviour.

// VerifTableSpec describes one freezer table.
type VerifTableSpec struct {
	Name      string
	NoSnappy  bool
	TailGroup string
}

// VerifNewFreezer opens a freezer with the given tables and data-file size limit.
func VerifNewFreezer(datadir string, readonly bool, maxTableSize uint32, specs []VerifTableSpec) (*Freezer, error) {
	tables := make(map[string]freezerTableConfig)
	for _, s := range specs {
		tables[s.Name] = freezerTableConfig{noSnappy: s.NoSnappy, tailGroup: s.TailGroup}
	}
	return NewFreezer(datadir, "verif/", readonly, maxTableSize, tables)
}

// VerifTableBounds returns (itemOffset, itemHidden, items) of one table.
func (f *Freezer) VerifTableBounds(kind string) (deleted, hidden, items uint64, ok bool) {
	t := f.tables[kind]
	if t == nil {
		return 0, 0, 0, false
	}
	return t.itemOffset.Load(), t.itemHidden.Load(), t.items.Load(), true
}

// VerifSetFreezerBatchLimit sets the chain freezer's per-cycle batch limit (a constant in the shipped
// tree, turned into a variable by tools/tunerewrite through the build overlay) and returns the old
// value, so that the simulator can run the capped-batch path with short chains.
func VerifSetFreezerBatchLimit(n uint64) uint64 {
	old := freezerBatchLimit
	freezerBatchLimit = n
	return old
}
