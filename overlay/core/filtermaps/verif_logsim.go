//go:build verif

package filtermaps

// White-box accessors for the logsim verification engine (added through go build
// -overlay, never part of the shipped tree). They add symbols and change no behaviour.

// VerifParams builds a Params value from its (unexported) basic fields.
func VerifParams(logMapHeight, logMapWidth, logMapsPerEpoch, logValuesPerMap uint, baseRowGroupSize uint32, baseRowLengthRatio, logLayerDiff uint) Params {
	return Params{
		logMapHeight:       logMapHeight,
		logMapWidth:        logMapWidth,
		logMapsPerEpoch:    logMapsPerEpoch,
		logValuesPerMap:    logValuesPerMap,
		baseRowGroupSize:   baseRowGroupSize,
		baseRowLengthRatio: baseRowLengthRatio,
		logLayerDiff:       logLayerDiff,
	}
}

// VerifRange is a copy of the indexed range.
type VerifRange struct {
	Initialized, HeadIndexed    bool
	HeadDelimiter               uint64
	MapsFirst, MapsAfterLast    uint32
	TailPartialEpoch            uint32
	BlocksFirst, BlocksAfterLast uint64
	ViewHead                    uint64
	HasView                     bool
}

// VerifIndexedRange returns the current indexed range (under the index read lock).
func (f *FilterMaps) VerifIndexedRange() VerifRange {
	f.indexLock.RLock()
	defer f.indexLock.RUnlock()
	return f.VerifIndexedRangeUnlocked()
}

// VerifIndexedRangeUnlocked is for trace output from the indexer's own goroutine.
func (f *FilterMaps) VerifIndexedRangeUnlocked() VerifRange {
	r := VerifRange{
		Initialized:      f.indexedRange.initialized,
		HeadIndexed:      f.indexedRange.headIndexed,
		HeadDelimiter:    f.indexedRange.headDelimiter,
		MapsFirst:        f.indexedRange.maps.First(),
		MapsAfterLast:    f.indexedRange.maps.AfterLast(),
		TailPartialEpoch: f.indexedRange.tailPartialEpoch,
		BlocksFirst:      f.indexedRange.blocks.First(),
		BlocksAfterLast:  f.indexedRange.blocks.AfterLast(),
	}
	if f.indexedView != nil {
		r.HasView = true
		r.ViewHead = f.indexedView.HeadNumber()
	}
	return r
}

// VerifTargetPending reports whether a SetTarget update has not been consumed by
// the indexer yet.
func (f *FilterMaps) VerifTargetPending() bool { return len(f.targetCh) > 0 }

// VerifDisabled reports whether the indexer has switched itself off.
func (f *FilterMaps) VerifDisabled() bool {
	select {
	case <-f.disabledCh:
		return true
	default:
		return false
	}
}

// VerifOverflowRows counts, over at most maxMaps maps of the indexed range, the
// rows that are longer than the base row length (stored partly as extended rows).
// Reads the database only; touches no cache.
func (f *FilterMaps) VerifOverflowRows(maxMaps uint32) int {
	f.indexLock.RLock()
	defer f.indexLock.RUnlock()
	n := 0
	first, after := f.indexedRange.maps.First(), f.indexedRange.maps.AfterLast()
	if after-first > maxMaps {
		first = after - maxMaps
	}
	for m := first; m < after; m++ {
		for row := uint32(0); row < f.mapHeight; row++ {
			rows, err := f.getFilterMapRows([]uint32{m}, row, false)
			if err == nil && uint32(len(rows[0])) > f.baseRowLength {
				n++
			}
		}
	}
	return n
}

// VerifMapsPerEpoch returns the derived maps-per-epoch value.
func (f *FilterMaps) VerifMapsPerEpoch() uint32 { return f.mapsPerEpoch }
