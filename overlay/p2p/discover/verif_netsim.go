//go:build verif

package discover

import (
	"github.com/ethereum/go-ethereum/p2p/enode"
)

// White-box accessors for the verification harness (netsim, C46). They add symbols
// and change no behaviour.

// VerifTransport implements the unexported transport interface with harness hooks.
type VerifTransport struct {
	SelfNode     *enode.Node
	PingFn       func(*enode.Node) (uint64, error)
	RequestENRFn func(*enode.Node) (*enode.Node, error)
	LookupFn     func(self bool) []*enode.Node
}

func (t *VerifTransport) Self() *enode.Node { return t.SelfNode }
func (t *VerifTransport) RequestENR(n *enode.Node) (*enode.Node, error) {
	return t.RequestENRFn(n)
}
func (t *VerifTransport) lookupRandom() []*enode.Node        { return t.LookupFn(false) }
func (t *VerifTransport) lookupSelf() []*enode.Node          { return t.LookupFn(true) }
func (t *VerifTransport) ping(n *enode.Node) (uint64, error) { return t.PingFn(n) }

type VerifConsts struct {
	BucketSize, MaxReplacements, NBuckets, BucketMinDistance int
	BucketIPLimit, BucketSubnet, TableIPLimit, TableSubnet   int
	MaxFindnodeFailures                                      int
}

func VerifTableConsts() VerifConsts {
	return VerifConsts{bucketSize, maxReplacements, nBuckets, bucketMinDistance,
		bucketIPLimit, bucketSubnet, tableIPLimit, tableSubnet, maxFindnodeFailures}
}

// VerifNewTable is newTable + go loop().
func VerifNewTable(t *VerifTransport, db *enode.DB, cfg Config) (*Table, error) {
	tab, err := newTable(t, db, cfg)
	if err != nil {
		return nil, err
	}
	go tab.loop()
	return tab, nil
}

func (tab *Table) VerifClose()                          { tab.close() }
func (tab *Table) VerifInitDone() bool                  { return tab.isInitDone() }
func (tab *Table) VerifAddFound(n *enode.Node) bool     { return tab.addFoundNode(n, false) }
func (tab *Table) VerifAddInbound(n *enode.Node) bool   { return tab.addInboundNode(n) }
func (tab *Table) VerifDelete(n *enode.Node)            { tab.deleteNode(n) }
func (tab *Table) VerifRefresh()                        { <-tab.refresh() }
func (tab *Table) VerifGetNode(id enode.ID) *enode.Node { return tab.getNode(id) }
func (tab *Table) VerifLen() int                        { return tab.len() }
func (tab *Table) VerifTrackRequest(n *enode.Node, ok bool, found []*enode.Node) {
	tab.trackRequest(n, ok, found)
}
func (tab *Table) VerifFindnodeByID(target enode.ID, n int, preferLive bool) []*enode.Node {
	return tab.findnodeByID(target, n, preferLive).entries
}
func (tab *Table) VerifBucketNodes(dist uint, live bool) []*enode.Node {
	return tab.appendBucketNodes(dist, nil, live)
}

type VerifEntry struct {
	Node   *enode.Node
	Live   bool
	Checks uint
	List   string // "fast", "slow" or "" (not in a revalidation list)
	InList bool   // the named list really contains the entry
}

type VerifBucket struct {
	Index        int
	Entries      []VerifEntry
	Replacements []VerifEntry
	IPs          int // number of addresses accounted in the bucket's subnet set
}

type VerifSnapshot struct {
	Buckets   []VerifBucket
	TableIPs  int
	FastLen   int
	SlowLen   int
	ActiveReq int
}

// VerifSnapshot copies the table state under the table mutex.
func (tab *Table) VerifSnapshot() VerifSnapshot {
	tab.mutex.Lock()
	defer tab.mutex.Unlock()
	conv := func(ns []*tableNode) []VerifEntry {
		out := make([]VerifEntry, len(ns))
		for i, n := range ns {
			e := VerifEntry{Node: n.Node, Live: n.isValidatedLive, Checks: n.livenessChecks}
			if n.revalList != nil {
				e.List = n.revalList.name
				for _, m := range n.revalList.nodes {
					if m == n {
						e.InList = true
					}
				}
			}
			out[i] = e
		}
		return out
	}
	s := VerifSnapshot{TableIPs: tab.ips.Len(), FastLen: len(tab.revalidation.fast.nodes), SlowLen: len(tab.revalidation.slow.nodes),
		ActiveReq: len(tab.revalidation.activeReq)}
	for _, b := range &tab.buckets {
		s.Buckets = append(s.Buckets, VerifBucket{Index: b.index, Entries: conv(b.entries), Replacements: conv(b.replacements), IPs: b.ips.Len()})
	}
	return s
}
