//go:build verif

package enode

import (
	"github.com/syndtr/goleveldb/leveldb"
	"github.com/syndtr/goleveldb/leveldb/opt"
	"github.com/syndtr/goleveldb/leveldb/storage"
)

// VerifOpenSmallMemDB is OpenDB("") with a small goleveldb write buffer (the default
// 4 MiB buffer costs ~15 ms to allocate, too much for thousands of simulated worlds
// per minute). White-box constructor for the verification harness only.
func VerifOpenSmallMemDB() (*DB, error) {
	db, err := leveldb.Open(storage.NewMemStorage(), &opt.Options{WriteBuffer: 64 << 10})
	if err != nil {
		return nil, err
	}
	return &DB{lvl: db, quit: make(chan struct{})}, nil
}
