//go:build verif

package snap

// White-box accessors for /verif/sim/snapsim (C47, C48). They add symbols only.

// VerifSetConcurrency sets the package-level chunking knobs of the syncers
// (accountConcurrency, storageConcurrency; the tree's own tests set them the
// same way) and returns the previous values.
func VerifSetConcurrency(account, storage int) (oldAccount, oldStorage int) {
	oldAccount, oldStorage = accountConcurrency, storageConcurrency
	if account > 0 {
		accountConcurrency = account
	}
	if storage > 0 {
		storageConcurrency = storage
	}
	return
}

// Serving-side limits, exported for the C48 oracle.
const (
	VerifSoftResponseLimit  = softResponseLimit
	VerifMaxCodeLookups     = maxCodeLookups
	VerifMaxTrieNodeLookups = maxTrieNodeLookups
	VerifStateLookupSlack   = stateLookupSlack
	VerifMinRequestSize     = minRequestSize
	VerifMaxRequestSize     = maxRequestSize
)
